#!/usr/bin/env python3
"""Generates contracts/registry.json (the frozen obligation set, DESIGN.md section 4) from the
tables below. Run by hand when harnesses are added; the JSON is what checks read."""
import json, os
VERIF = os.path.dirname(os.path.dirname(os.path.abspath(__file__)))

K = []
def k(id, mod, pkg, file, props, kind="lemma", tier="quick", function=None, clause=None, bound=None, timeout=400, tests=False, solver="cadical", assumes=(), cex_module=None, cex_default=None):
    """cex_module: module holding `<clause>_cex` single-clause SAT harnesses for counterexample search;
    cex_default: harness used when the failed check is not a named clause (overflow, panic, NaN)."""
    K.append({"id": id, "harness": mod + "::" + id, "pkg": pkg, "file": file, "props": props, "kind": kind, "tier": tier,
              "function": function, "clause": clause, "bound": bound, "timeout": timeout, "tests": tests, "solver": solver,
              "assumes": list(assumes), "cex_module": cex_module, "cex_default": cex_default})

TS = ("time_scale::verif_time_scale", "mina_core", "core/src/verif_time_scale.rs")
A1 = "A1 fmod axioms"
for mode in ("none", "times", "infinite"):
    for d in ("fwd", "rev"):
        k("ts_get_position_%s_%s" % (mode, d), *TS, ["C02", "C03", "C10", "C20"], "contract", function="TimeScale::get_position",
          clause="all 6 ensures clauses + no overflow/NaN, repeat=%s reverse=%s, all (cycle, delay, time)" % (mode, d == "rev"),
          solver="cvc5", assumes=[A1] if mode != "none" else [],
          cex_module=TS[0] + "::cex_%s_%s" % (mode, d), cex_default=TS[0] + "::cex_%s_%s::safety_cex" % (mode, d))
for mode in ("none", "times", "infinite"):
    k("ts_get_duration_%s" % mode, *TS, ["C03", "C07", "C20"], "contract", function="TimeScale::get_duration",
      clause="total = delay + cycle x (repeats+1) without wrap-around; INFINITY for infinite", solver="cvc5",
      cex_default=TS[0] + "::cex_duration::" + mode)
k("ts_accessors_return_configuration", *TS, ["C03", "C09"], "lemma", function="TimeScale::{new,get_delay,get_cycle_duration,get_repeat,clone}",
  clause="accessors return the constructor arguments; clone preserves them")
k("ts_lemma_terminal_is_constant", *TS, ["C02", "C07"], "lemma", function="TimeScale::get_position (contract)",
  clause="contract => once terminal, later times are terminal with the same value")
for mode in ("none", "times", "infinite"):
    k("ts_lemma_duration_agrees_%s" % mode, *TS, ["C03", "C07"], "lemma", function="TimeScale::{get_position,get_duration} (contracts)",
      clause="contracts => not terminal before the reported total duration (delay + span exact); never terminal under infinite repeat", solver="cvc5")
k("ts_lemma_reverse_mirror", *TS, ["C03"], "lemma", function="TimeScale::get_position (contract)",
  clause="contract => falling half mirrors rising half (1-r exact)")
k("ts_lemma_endpoint_arithmetic", *TS, ["C02", "C03"], "lemma", clause="d/d == 1, 0/d == 0, doubled/mirrored forms exact", solver="cvc5")
k("ts_lemma_quotient_vs_compare", *TS, ["C02", "C03", "C10"], "lemma", clause="a/d >= 1 <=> a >= d; a/d > 1 <=> a > d", solver="cvc5")
k("ts_lemma_subtraction_sign", *TS, ["C03"], "lemma", clause="t - delay < 0 <=> t < delay")
k("ts_cover_times_rev", *TS, ["C02", "C03", "C10", "C20"], "cover", assumes=[A1])
k("ts_cover_infinite_fwd", *TS, ["C02", "C03", "C10", "C20"], "cover", assumes=[A1])
k("ts_canary_must_fail", *TS, ["C02", "C03", "C07", "C10", "C20"], "canary")

exec(open(os.path.join(VERIF, "tools", "gen_registry_more.py")).read()) if os.path.exists(os.path.join(VERIF, "tools", "gen_registry_more.py")) else None

A = {
 "A1": "A1: f32 `%` (time_scale.rs) is replaced under Kani by a value constrained only by the IEEE-754 fmod facts 0<=r<b, r<=a, a<b=>r==a, a==b=>r==0 (CBMC's fmodf model is wrong); validated differentially, not proved",
 "A5": "A5: Rust type system: &self methods cannot mutate self (no interior mutability in the types involved; scanned textually each run)",
 "KANI": "Kani 0.68 / CBMC 6.11 / cvc5 1.0.3 / CaDiCaL are trusted; Kani does not prove termination (all functions under contract are loop-free or have unwinding assertions)",
 "FLOAT": "machine arithmetic is NOT treated as mathematical: all f32 reasoning is bit-precise IEEE-754 (round-to-nearest-even)",
}
P = {
 "C03": {"assumptions": [A["A1"], A["KANI"], A["FLOAT"], "generated <T>Timeline accessors delegate to TimeScale (checked by C17's harnesses, not here)"],
         "trusted_base": ["Kani 0.68.0", "CBMC 6.11.0", "cvc5 1.0.3", "CaDiCaL 3.0.0", "A1 fmod axioms"],
         "not_decided": ["interior linearity is stated with tolerance 4*f32::EPSILON against the f32 formula, not against real arithmetic",
                         "periodicity is by construction of the contract: the position depends on the time since the delay only through fmod(t, cycle) and the comparisons t>=cycle, t>cycle"]},
}
exec(open(os.path.join(VERIF, "tools", "gen_registry_props.py")).read()) if os.path.exists(os.path.join(VERIF, "tools", "gen_registry_props.py")) else None

json.dump({"properties": P, "kani": K, "verus": []}, open(os.path.join(VERIF, "contracts", "registry.json"), "w"), indent=1)
print("registry: %d kani harnesses, %d properties" % (len(K), len(P)))
