#!/usr/bin/env python3
"""Generates contracts/registry.json (the frozen obligation set, DESIGN.md section 4) from the
tables below. Run by hand when harnesses are added; the JSON is what checks read."""
import json, os
VERIF = os.path.dirname(os.path.dirname(os.path.abspath(__file__)))

K = []
def k(id, mod, pkg, file, props, kind="lemma", tier="quick", function=None, clause=None, bound=None, timeout=400, tests=False, solver="cadical", assumes=(), cex_module=None, cex_default=None):
    """cex_module: module holding `<clause>_cex` single-clause SAT harnesses for counterexample search;
    cex_default: harness used when the failed check is not a named clause (overflow, panic, NaN)."""
    K.append({"id": id, "harness": mod + "::" + id, "pkg": pkg, "file": file, "props": props, "kind": kind, "tier": tier,
              "function": function, "clause": clause, "bound": bound, "timeout": timeout, "tests": tests, "solver": solver,
              "assumes": list(assumes), "cex_module": cex_module, "cex_default": cex_default})

TS = ("time_scale::verif_time_scale", "mina_core", "core/src/verif_time_scale.rs")
A1 = "A1 fmod axioms"
for mode in ("none", "times", "infinite"):
    for d in ("fwd", "rev"):
        k("ts_get_position_%s_%s" % (mode, d), *TS, ["C02", "C03", "C10", "C20"], "contract", function="TimeScale::get_position",
          clause="all 6 ensures clauses + no overflow/NaN, repeat=%s reverse=%s, all (cycle, delay, time)" % (mode, d == "rev"),
          solver="cvc5", assumes=[A1] if mode != "none" else [],
          cex_module=TS[0] + "::cex_%s_%s" % (mode, d), cex_default=TS[0] + "::cex_%s_%s::safety_cex" % (mode, d))
for mode in ("none", "times", "infinite"):
    k("ts_get_duration_%s" % mode, *TS, ["C03", "C07", "C20"], "contract", function="TimeScale::get_duration",
      clause="total = delay + cycle x (repeats+1) without wrap-around; INFINITY for infinite", solver="cvc5",
      cex_default=TS[0] + "::cex_duration::" + mode)
k("ts_accessors_return_configuration", *TS, ["C03", "C09"], "lemma", function="TimeScale::{new,get_delay,get_cycle_duration,get_repeat,clone}",
  clause="accessors return the constructor arguments; clone preserves them")
k("ts_lemma_terminal_is_constant", *TS, ["C02", "C07"], "lemma", function="TimeScale::get_position (contract)",
  clause="contract => once terminal, later times are terminal with the same value")
for mode in ("none", "times", "infinite"):
    # the Times case is one 13-17 minute cvc5 query: thorough tier only (the quick tier must stay well under 15 minutes per check)
    k("ts_lemma_duration_agrees_%s" % mode, *TS, ["C03", "C07"], "lemma", tier=("thorough" if mode == "times" else "quick"), function="TimeScale::{get_position,get_duration} (contracts)",
      clause="contracts => for EVERY configuration (no exactness side condition): not terminal before the reported total duration; from it on (t >= total, what is_ended tests) every allowed position is the terminal one (Ended, or the held end of the last cycle at t == total): 100%, or 0% when reversing; never terminal under infinite repeat", solver="cvc5", timeout=(800 if mode == "times" else 400))
k("ts_lemma_reverse_mirror", *TS, ["C03"], "lemma", function="TimeScale::get_position (contract)",
  clause="contract => falling half mirrors rising half (1-r exact)")
k("ts_lemma_endpoint_arithmetic", *TS, ["C02", "C03"], "lemma", clause="d/d == 1, 0/d == 0, doubled/mirrored forms exact", solver="cvc5")
k("ts_lemma_quotient_vs_compare", *TS, ["C02", "C03", "C10"], "lemma", clause="a/d >= 1 <=> a >= d; a/d > 1 <=> a > d", solver="cvc5")
k("ts_lemma_subtraction_sign", *TS, ["C03"], "lemma", clause="t - delay < 0 <=> t < delay")
k("ts_cover_times_rev", *TS, ["C02", "C03", "C10", "C20"], "cover", assumes=[A1])
k("ts_cover_infinite_fwd", *TS, ["C02", "C03", "C10", "C20"], "cover", assumes=[A1])
k("ts_canary_must_fail", *TS, ["C02", "C03", "C07", "C10", "C20"], "canary")

FA = ("verif_float_axioms", "mina_core", "core/src/verif_float_axioms.rs")
for n in ("axioms_unary", "axioms_binary", "axioms_ternary", "total_cmp_order_implies_fle"):
    k(n, *FA, ["C01", "C08", "C10"], "lemma", clause="A2 cross-check: the f32 order axioms route V assumes hold for all f32 bit patterns")

V = []
def v(id, function, props, kind="contract", clause=None, tier="quick"):
    V.append({"id": id, "function": function, "props": props, "kind": kind, "clause": clause, "tier": tier, "assumes": ["A2", "A3"]})

v("v_from_keyframes", "SubTimeline::from_keyframes", ["C01", "C08", "C17", "C20"],
  clause="for EVERY keyframe list: no defining keyframe => empty (C08); else frames == fold spec a_frames_final (synthetic 0% frame with default value+default easing, one frame per defining keyframe with the easing in force, held 100% frame), map == a_map, no override, wf, and (valid sorted keyframes) the lookup invariant `linked`; loop invariant over the real for-loop; no index arithmetic overflow")
v("v_get_bounding_frames", "SubTimeline::get_bounding_frames", ["C01", "C08", "C10", "C20"],
  clause="requires wf; hint outside the map => None; else result == spec_bounding (which neighbours); `len() - 1`, `index_at + 1`, `index_at - 1` cannot overflow")
v("v_get_frame", "SubTimeline::get_frame", ["C01", "C10", "C04"], clause="result == spec_frame_at: override iff enabled && index == 0 && override present")
v("v_override_start_value", "SubTimeline::override_start_value", ["C09", "C10", "C04"],
  clause="frames, map untouched; override REPLACED by frame0.with_value(v) (time, easing of frame 0); wf and linked preserved; no-op on empty")
v("v_value_at", "SubTimeline::value_at", ["C01", "C02", "C08", "C10", "C20"],
  clause="for EVERY size: empty map / hint outside => None (field never assigned); else Some(interpolate(lookup(clamp t), clamp t)): clamp before lookup, the pair is spec_bounding's")
v("v_merged_update", "MergedTimeline::update", ["C12"],
  clause="for ANY number of components, each an arbitrary implementation of Timeline::update: the target afterwards == fold_update(components, target before, time, len), i.e. the components applied in order to the same target at the same time (loop invariant over the real for-loop)")
v("v_prepare_frame", "prepare_frame", ["C01", "C04", "C10", "C20"],
  clause="for EVERY number of master keyframes (sorted valid positions): None iff there are none; else the position is get_position's (0 when not started), the master index satisfies hint_ok (keyframe[idx] <= t <= keyframe[idx+1], or t before the first and idx==0) - the precondition of the lookup lemma - and the start-override flag == not-started || (active && !repeating && !reversing); `max(1) - 1` cannot underflow. Assumes std's binary-search contract (A7)")
V[-1]["assumes"] = ["A2", "A7"]
v("v_empty", "SubTimeline::empty", ["C08"], clause="empty frames, empty map, no override, wf")
v("v_split_new", "SplitKeyframe::new", ["C01"], clause="fields are the arguments")
v("v_split_with_time", "SplitKeyframe::with_time", ["C01"], clause="time replaced, value cloned, easing kept")
v("v_split_with_value", "SplitKeyframe::with_value", ["C01", "C10"], clause="value replaced, time and easing kept")
v("v_lemma_af_inv", "lemma_af_inv", ["C01", "C20"], kind="lemma", clause="fold spec => frames valid, first at 0%, each at-or-before its keyframe, frames after a mapped index come from later keyframes (induction on the number of keyframes)")
v("v_lemma_lookup_brackets", "lemma_lookup_brackets", ["C01", "C02", "C10"], kind="lemma",
  clause="wf && linked && hint_ok => lookup returns consecutive frames (k,k+1) or (last,last) with first.t <= t <= second.t")
v("v_lemma_no_frames_default_easing", "lemma_no_frames_default_easing", ["C01"], kind="lemma", clause="no frames yet => easing in force is the default easing")
v("v_lemma_frames_nonempty", "lemma_frames_nonempty_and_map_in_range", ["C01", "C08", "C20"], kind="lemma", clause="some defining keyframe => >=1 frame; map entries in range")

exec(open(os.path.join(VERIF, "tools", "gen_registry_more.py")).read()) if os.path.exists(os.path.join(VERIF, "tools", "gen_registry_more.py")) else None

A = {
 "A1": "A1: f32 `%` (time_scale.rs) is replaced under Kani by a value constrained only by the IEEE-754 fmod facts 0<=r<b, r<=a, a<b=>r==a, a==b=>r==0 (CBMC's fmodf model is wrong); validated differentially, not proved",
 "A5": "A5: Rust type system: &self methods cannot mutate self (no interior mutability in the types involved; scanned textually each run)",
 "KANI": "Kani 0.68 / CBMC 6.11 / cvc5 1.0.3 / CaDiCaL are trusted; Kani does not prove termination (all functions under contract are loop-free or have unwinding assertions)",
 "FLOAT": "machine arithmetic is NOT treated as mathematical: all f32 reasoning is bit-precise IEEE-754 (round-to-nearest-even)",
}
P = {
 "C03": {"assumptions": [A["A1"], A["KANI"], A["FLOAT"], "generated <T>Timeline accessors delegate to TimeScale (checked by C17's harnesses, not here)"],
         "trusted_base": ["Kani 0.68.0", "CBMC 6.11.0", "cvc5 1.0.3", "CaDiCaL 3.0.0", "A1 fmod axioms"],
         "not_decided": ["QUICK TIER: the Repeat::Times case of ts_lemma_duration_agrees (agreement of the reported duration with the behaviour, from the contracts) is a single 13-17 minute cvc5 query and runs in the thorough tier only; the six mode proofs of the get_position contract itself, which carry every clause of C03, run in both tiers",
                         "interior linearity is stated with tolerance 4*f32::EPSILON against the f32 formula, not against real arithmetic",
                         "periodicity is by construction of the contract: the position depends on the time since the delay only through fmod(t, cycle) and the comparisons t>=cycle, t>cycle"]},
}
exec(open(os.path.join(VERIF, "tools", "gen_registry_props.py")).read()) if os.path.exists(os.path.join(VERIF, "tools", "gen_registry_props.py")) else None

json.dump({"properties": P, "kani": K, "verus": V}, open(os.path.join(VERIF, "contracts", "registry.json"), "w"), indent=1)
print("registry: %d kani harnesses, %d verus units, %d properties" % (len(K), len(V), len(P)))
