#!/usr/bin/env python3
"""Route V: mechanical extraction of the real functions into one Verus file (DESIGN.md section 2).

Items are cut byte-for-byte out of /repo/core/src/{timeline_helpers,timeline}.rs with a
brace-matching scanner and emitted inside `verus!{}`.  The only edits are the ones listed in
EDITS below (each applied edit is recorded in the report); contracts, loop invariants and proof
blocks are spliced from contracts/verus/contracts.vrs by anchor.  A lost anchor raises
Undecided (exit 2).  The assembled text is scanned for assume/admit/external_body/... and the
scan is part of the evidence.
"""
import os
import re
import sys

sys.path.insert(0, os.path.dirname(os.path.abspath(__file__)))
import vlib
from vlib import Undecided

HELPERS = "core/src/timeline_helpers.rs"
TIMELINE = "core/src/timeline.rs"
TIMESCALE = "core/src/time_scale.rs"

EDITS = {
    "V-R1": "from_keyframes: `keyframes: impl IntoIterator<Item = &'a Keyframe<Data>>` -> `keyframes: &'a Vec<Keyframe<Data>>` (the only call shape the derive macro emits)",
    "V-R2": "from_keyframes: `for keyframe in keyframes.into_iter()` -> `for keyframe in it: keyframes.into_iter()` + spliced `invariant` block",
    "V-R3": "return types named: `-> T` -> `-> (r: T)`; requires/ensures inserted between signature and body",
    "V-R4": "#[derive(..)] and doc comments on the extracted structs dropped; `pub(super)` field visibility of Keyframe -> `pub`",
    "V-R6": "a closure passed to Option::map gets a return-type name and an `ensures` clause (`|x| e` -> `|x| -> (p: T) ensures p == e { e }`); the body expression is unchanged",
    "V-R7": "MergedTimeline::update is a trait-impl method in the source; it is emitted as an inherent method of MergedTimeline<T> with `Self::Target` -> `T::Target` (the Verus-side `Timeline` trait declares only start_with/update plus their specification functions)",
    "V-R8": "prepare_frame: the call `<slice>.binary_search_by(|t| t.total_cmp(&<x>))` -> `bsearch_total_cmp(<slice>, <x>)`, an external_body function whose body is that very call and whose contract is std's documented binary-search contract (assumption A7; the real std search is executed by the bounded Kani harnesses prepare_frame_n*/search_index_n*)",
    "V-R5": "`Data: 'a + Clone + Debug` -> `Data: 'a + Clone` (Debug is unused by the body and has no Verus spec)",
}


def strip_doc(text):
    return "\n".join(l for l in text.split("\n") if not l.strip().startswith("///"))


def extract_struct(src, header_re, what):
    m = re.search(header_re, src, re.M)
    if not m:
        raise Undecided("anchor lost: %s" % what)
    ob = src.find("{", m.end() - 1)
    cb = vlib.find_matching_brace(src, ob)
    return src[m.start():cb + 1], vlib.line_of(src, m.start())


def extract_fn(src, impl_header, name):
    ls, ob, cb = vlib.find_fn(src, name, impl_header)
    sig = src[ls:ob]
    body = src[ob:cb + 1]
    return sig, body, vlib.line_of(src, ls)


def parse_contracts(path):
    """Sections: //@ fn <name> contract | //@ fn <name> invariant | //@ fn <name> splice (before|after) <literal text> | //@ fn <name> rename <old> => <new>"""
    sections = []
    cur = None
    for line in open(path).read().split("\n"):
        if line.startswith("//@ "):
            if cur:
                sections.append(cur)
            cur = {"head": line[4:].strip(), "text": []}
        elif cur is not None:
            cur["text"].append(line)
    if cur:
        sections.append(cur)
    out = []
    for s in sections:
        h = s["head"]
        if h == "end":
            continue
        m = re.match(r"fn (\S+) (contract|invariant)$", h)
        if m:
            out.append({"fn": m.group(1), "kind": m.group(2), "text": "\n".join(s["text"]).rstrip() + "\n"})
            continue
        m = re.match(r"fn (\S+) annotate-closure (.*)$", h)
        if m:
            out.append({"fn": m.group(1), "kind": "closure", "anchor": m.group(2), "text": "\n".join(s["text"]).strip()})
            continue
        m = re.match(r"fn (\S+) at (body-start|loop-body-start|loop-body-end|loop-after|tail)$", h)
        if m:
            out.append({"fn": m.group(1), "kind": "at", "where": m.group(2), "text": "\n".join(s["text"]).rstrip() + "\n"})
            continue
        m = re.match(r"fn (\S+) splice (before|after) (.*)$", h)
        if m:
            out.append({"fn": m.group(1), "kind": "splice", "pos": m.group(2), "anchor": m.group(3), "text": "\n".join(s["text"]).rstrip() + "\n"})
            continue
        raise Undecided("bad contracts section header: %r" % h)
    return out


def name_return(sig):
    """V-R3: `-> T` -> `-> (r: T)` (T up to end of signature / `where`)."""
    m = re.search(r"->\s*(.+?)(\s*(?:\bwhere\b.*)?)$", sig.rstrip(), re.S)
    if not m:
        return sig.rstrip(), False
    ty = m.group(1).strip()
    rest = m.group(2)
    return sig[:m.start()] + "-> (r: %s)" % ty + rest, True


def assemble(repo=None, contracts_path=None, prelude_path=None, mutate=None, skip_merged=False, skip_prepare=False):
    repo = repo or vlib.REPO
    contracts_path = contracts_path or os.path.join(vlib.VERIF, "contracts/verus/contracts.vrs")
    prelude_path = prelude_path or os.path.join(vlib.VERIF, "contracts/verus/prelude.rs")
    hp = os.path.join(repo, HELPERS)
    tp = os.path.join(repo, TIMELINE)
    if not os.path.exists(hp) or not os.path.exists(tp):
        raise Undecided("anchor lost: %s or %s" % (HELPERS, TIMELINE))
    hsrc = open(hp).read()
    tsrc = open(tp).read()
    cut = hsrc.find("#[cfg(test)]\nmod tests")
    if cut > 0:
        hsrc_code = hsrc[:cut]
    else:
        hsrc_code = hsrc
    contracts = parse_contracts(contracts_path)
    report = {"edits_applied": [], "functions": [], "dropped": [
        "interpolate_value's body (float arithmetic: proved by route K); declared external_body with an uninterpreted result `spec_interpolate`",
        "f32::clamp (assume_specification: result is `spec_clamp01`, a valid position for non-NaN input)",
        "Easing (declared as an opaque external type with clone == identity, A3)",
        "Lerp (marker trait only; lerp is never called by the extracted functions)",
        "#[cfg(test)] module",
    ]}
    out = []
    out.append(open(prelude_path).read())
    out.append("\nverus! {\n")
    out.append("// ===== extracted from %s / %s (byte-for-byte except the edits listed in the report) =====\n" % (TIMELINE, HELPERS))

    # --- Keyframe struct (timeline.rs)
    ks, kline = extract_struct(tsrc, r"^pub struct Keyframe<Data: Clone>\s*\{", "struct Keyframe")
    ks2 = ks.replace("pub(super) ", "pub ")
    if ks2 != ks:
        report["edits_applied"].append("V-R4 Keyframe fields pub(super) -> pub")
    out.append(strip_doc(ks2) + "\n\n")
    report["functions"].append({"function": "struct Keyframe", "file": TIMELINE, "line": kline, "sha256_16": vlib.sha(ks)})

    # --- structs
    for hdr, what in ((r"^pub struct SubTimeline<Value: Clone>\s*\{", "struct SubTimeline"), (r"^struct SplitKeyframe<Value: Clone>\s*\{", "struct SplitKeyframe")):
        st, line = extract_struct(hsrc_code, hdr, what)
        out.append(strip_doc(st).replace("struct SplitKeyframe", "pub struct SplitKeyframe", 1) if what == "struct SplitKeyframe" else strip_doc(st))
        out.append("\n\n")
        report["functions"].append({"function": what, "file": HELPERS, "line": line, "sha256_16": vlib.sha(st)})
    report["edits_applied"].append("V-R4 derives/doc comments dropped; SplitKeyframe made pub (it appears in pub contracts)")

    def emit_fn(impl_header, name, qual):
        sig, body, line = extract_fn(hsrc_code, impl_header, name)
        orig = sig + body
        for bad in ("assume(", "admit(", "external_body", "unsafe"):
            if bad in orig:
                raise Undecided("extracted body of %s contains %s" % (qual, bad))
        sig2 = sig
        if name == "from_keyframes":
            a = "keyframes: impl IntoIterator<Item = &'a Keyframe<Data>>"
            if a not in sig2:
                raise Undecided("anchor lost: from_keyframes keyframes parameter (V-R1)")
            sig2 = sig2.replace(a, "keyframes: &'a Vec<Keyframe<Data>>")
            report["edits_applied"].append("V-R1")
            b = "Data: 'a + Clone + Debug"
            if b in sig2:
                sig2 = sig2.replace(b, "Data: 'a + Clone")
                report["edits_applied"].append("V-R5")
        # where clause must come after the contract? In Verus: fn f(..) -> (r: T) where ... requires ... ensures ... { }
        sig2, named = name_return(strip_doc(sig2))
        if named:
            report["edits_applied"].append("V-R3 %s" % qual)
        body2 = body
        cs = [dict(c) for c in contracts if c["fn"] == qual]
        if name == "from_keyframes":
            # the contracts name the function's locals by ROLE; find what they are called in this version
            roles = {}
            vecs = re.findall(r"let\s+mut\s+(\w+)\s*=\s*Vec::new\(\)\s*;", body)
            m = re.search(r"(\w+)\s*\.push\(\s*SplitKeyframe::new", body)
            if len(vecs) == 2 and m and m.group(1) in vecs:
                roles["converted_frames"] = m.group(1)
                roles["frame_index_map"] = [v for v in vecs if v != m.group(1)][0]
            m = re.search(r"let\s+mut\s+(\w+)\s*=\s*default_easing\s*;", body)
            if m:
                roles["current_easing"] = m.group(1)
            m = re.search(r"let\s+mut\s+(\w+)\s*=\s*false\s*;", body)
            if m:
                roles["has_frame_data"] = m.group(1)
            m = re.search(r"for\s+(\w+)\s+in\s+keyframes\.into_iter\(\)\s*\{", body)
            if m:
                roles["keyframe"] = m.group(1)
            if len(roles) != 5:
                raise Undecided("anchor lost: could not identify the locals of from_keyframes by role (found %s)" % sorted(roles))
            if any(k != v for k, v in roles.items()):
                report["edits_applied"].append("contract identifiers mapped to renamed locals: %s" % {k: v for k, v in roles.items() if k != v})
                for c in cs:
                    t = c["text"]
                    for k, v in roles.items():
                        t = re.sub(r"\b%s\b" % k, "\0ROLE_%s\0" % k, t)
                    for k, v in roles.items():
                        t = t.replace("\0ROLE_%s\0" % k, v)
                    c["text"] = t
            loop_header = "for %s in keyframes.into_iter() {" % roles["keyframe"]
            loop_ghost = "for %s in it: keyframes.into_iter()\n" % roles["keyframe"]
        else:
            loop_header = "for keyframe in keyframes.into_iter() {"
            loop_ghost = "for keyframe in it: keyframes.into_iter()\n"
        contract = "".join(c["text"] for c in cs if c["kind"] == "contract")
        LOOP = loop_header
        structural = [c for c in cs if c["kind"] in ("invariant", "at")]
        if structural:
            # structural anchors (brace matching on the ORIGINAL body, applied back to front so offsets stay valid)
            inserts = []  # (offset, text)
            loop_needed = any(c["kind"] == "invariant" or c["where"].startswith("loop") for c in structural if c["kind"] != "at" or True)
            lo = body2.find(LOOP)
            if any((c["kind"] == "invariant") or (c["kind"] == "at" and c["where"].startswith("loop")) for c in structural):
                if lo < 0 or body2.count(LOOP) != 1:
                    raise Undecided("anchor lost: for loop header in %s (V-R2)" % qual)
                lob = lo + len(LOOP) - 1
                lcb = vlib.find_matching_brace(body2, lob)
            for c in structural:
                if c["kind"] == "invariant":
                    inserts.append((lo, len(LOOP), loop_ghost + c["text"] + "        {"))
                    report["edits_applied"].append("V-R2")
                elif c["where"] == "body-start":
                    inserts.append((1, 0, "\n" + c["text"]))
                elif c["where"] == "loop-body-start":
                    inserts.append((lob + 1, 0, "\n" + c["text"]))
                elif c["where"] == "loop-body-end":
                    inserts.append((lcb, 0, c["text"]))
                elif c["where"] == "loop-after":
                    inserts.append((lcb + 1, 0, "\n" + c["text"]))
            # stable order: by offset descending; for equal offsets keep file order reversed
            for off, ln, txt in sorted(inserts, key=lambda x: -x[0]):
                body2 = body2[:off] + txt + body2[off + ln:]
        for c in cs:
            if c["kind"] in ("invariant", "at"):
                continue
            if c["kind"] == "closure":
                # V-R6: `|x| [a, x]` -> `|x: &SplitKeyframe<Value>| -> (p: [..; 2]) ensures p == [a, x] { [a, x] }`.
                # Matched by shape, not by identifier names; a body without any closure needs no annotation.
                ms = list(re.finditer(r"\|\s*(\w+)\s*\|\s*\[\s*(\w+)\s*,\s*(\w+)\s*\]", body2))
                if len(ms) == 1:
                    m = ms[0]
                    arr = "[%s, %s]" % (m.group(2), m.group(3))
                    ann = "|%s: &SplitKeyframe<Value>| -> (p: [&SplitKeyframe<Value>; 2]) ensures p == %s { %s }" % (m.group(1), arr, arr)
                    body2 = body2[:m.start()] + ann + body2[m.end():]
                    report["edits_applied"].append("V-R6 %s" % qual)
                elif len(ms) == 0 and "|" not in re.sub(r"\|\|", "", body2):
                    pass  # no closure in this body
                else:
                    raise Undecided("anchor lost: closure shape in %s" % qual)
            elif c["kind"] == "splice":
                if body2.count(c["anchor"]) != 1:
                    raise Undecided("anchor lost (%d matches): %r in %s" % (body2.count(c["anchor"]), c["anchor"], qual))
                i = body2.index(c["anchor"])
                if c["pos"] == "after":
                    i += len(c["anchor"])
                    body2 = body2[:i] + "\n" + c["text"] + body2[i:]
                else:
                    body2 = body2[:i] + c["text"] + body2[i:]
        if mutate:
            body2 = mutate(qual, body2)
        out.append(sig2.rstrip() + "\n" + contract + body2 + "\n\n")
        report["functions"].append({"function": qual, "file": HELPERS, "line": line, "sha256_16": vlib.sha(orig),
                                    "contract_clauses": contract.count(",\n") + (1 if contract.strip() else 0)})

    out.append("impl<Value: Clone> SplitKeyframe<Value> {\n")
    for n in ("new", "with_time", "with_value"):
        emit_fn("impl<Value: Clone> SplitKeyframe<Value>", n, "SplitKeyframe::" + n)
    out.append("}\n\n")
    out.append("impl<Value: Clone + Lerp> SubTimeline<Value> {\n")
    for n in ("from_keyframes", "override_start_value", "value_at", "empty", "get_bounding_frames", "get_frame"):
        emit_fn("impl<Value: Clone + Lerp> SubTimeline<Value>", n, "SubTimeline::" + n)
    out.append("}\n\n")
    # --- MergedTimeline::update (core/src/timeline.rs): the ordered-overlay loop, for any number of components
    report["skipped"] = []
    try:
        if skip_merged:
            raise Undecided("MergedTimeline::update left out: Verus could not process the file with it")
        ms, mline = extract_struct(tsrc, r"^pub struct MergedTimeline<T: Timeline>\s*\{", "struct MergedTimeline")
        mimpl = "impl<T: Timeline> Timeline for MergedTimeline<T>"
        ls, ob, cb = vlib.find_fn(tsrc, "update", mimpl)
        msig, mbody = tsrc[ls:ob], tsrc[ob:cb + 1]
        morig = msig + mbody
        for bad in ("assume(", "admit(", "external_body", "unsafe"):
            if bad in morig:
                raise Undecided("extracted body of MergedTimeline::update contains %s" % bad)
        if "Self::Target" not in msig:
            raise Undecided("anchor lost: MergedTimeline::update signature (Self::Target)")
        msig2 = msig.replace("Self::Target", "T::Target")
        report["edits_applied"].append("V-R7 MergedTimeline::update: trait-impl method emitted as an inherent method, `Self::Target` -> `T::Target`")
        # the one loop of the body; the loop-progress term of the invariant depends on what is iterated (stated shapes only)
        mloop = re.search(r"for\s+(\w+)\s+in\s+([^{]+?)\s*\{", mbody)
        if not mloop or len(re.findall(r"\b(?:for|while|loop)\b", mbody)) != 1:
            raise Undecided("anchor lost: MergedTimeline::update is no longer one `for` loop")
        lvar, liter = mloop.group(1), mloop.group(2).strip()
        if re.fullmatch(r"&self\.timelines|self\.timelines\.iter\(\)", liter):
            idx, head = "it.index@", "for %s in it: %s\n" % (lvar, liter)
        elif re.fullmatch(r"0\s*\.\.\s*self\.timelines\.len\(\)", liter):
            idx, head = "%s as int" % lvar, "for %s in it: %s\n" % (lvar, liter)
        else:
            raise Undecided("MergedTimeline::update iterates `%s`: not a shape the loop invariant is written for" % liter)
        mcs = [c for c in contracts if c["fn"] == "MergedTimeline::update"]
        mcontract = "".join(c["text"] for c in mcs if c["kind"] == "contract")
        minv = "".join(c["text"] for c in mcs if c["kind"] == "invariant").replace("@IDX@", idx)
        mbody2 = mbody[:mloop.start()] + head + minv + "        {" + mbody[mloop.end():]
        if mutate:
            mbody2 = mutate("MergedTimeline::update", mbody2)
        out.append(strip_doc(ms) + "\n\n")
        report["functions"].append({"function": "struct MergedTimeline", "file": TIMELINE, "line": mline, "sha256_16": vlib.sha(ms)})
        out.append("impl<T: Timeline> MergedTimeline<T> {\n    pub closed spec fn comps(&self) -> Seq<T> { self.timelines@ }\n\n" + strip_doc(msig2).rstrip() + "\n" + mcontract + mbody2 + "\n}\n\n")
        report["functions"].append({"function": "MergedTimeline::update", "file": TIMELINE, "line": vlib.line_of(tsrc, ls), "sha256_16": vlib.sha(morig), "contract_clauses": 1})

    except Undecided as e:
        # MergedTimeline is independent of the SubTimeline functions: losing it leaves only C12's Verus unit undecided
        report["skipped"].append(str(e))
    # --- prepare_frame (core/src/timeline.rs): which master index and which start-override flag the lookup gets, any number of keyframes
    try:
        if skip_prepare:
            raise Undecided("prepare_frame left out: Verus could not process the file with it")
        scp = os.path.join(repo, TIMESCALE)
        if not os.path.exists(scp):
            raise Undecided("anchor lost: %s" % TIMESCALE)
        ssrc = open(scp).read()
        pe, peline = extract_struct(ssrc, r"^pub enum TimeScalePosition\s*\{", "enum TimeScalePosition")
        pl, plline = extract_struct(ssrc, r"^pub struct TimeScaleLoopState\s*\{", "struct TimeScaleLoopState")
        ls, ob, cb = vlib.find_fn(tsrc, "prepare_frame", None)
        psig, pbody = tsrc[ls:ob], tsrc[ob:cb + 1]
        porig = psig + pbody
        for bad in ("assume(", "admit(", "external_body", "unsafe"):
            if bad in porig:
                raise Undecided("extracted body of prepare_frame contains %s" % bad)
        psig2, named = name_return(strip_doc(psig))
        if not named:
            raise Undecided("anchor lost: prepare_frame return type")
        pm = re.search(r"fn\s+prepare_frame\s*\(\s*(\w+)\s*:\s*f32\s*,\s*(\w+)\s*:\s*&\[f32\]\s*,\s*(\w+)\s*:\s*&TimeScale\s*,?\s*\)", psig)
        if not pm:
            raise Undecided("anchor lost: prepare_frame parameter list")
        roles = {"time": pm.group(1), "boundary_times": pm.group(2), "timescale": pm.group(3)}
        bs = list(re.finditer(r"(\w+)\s*\.\s*binary_search_by\(\s*\|\s*(\w+)\s*\|\s*\2\.total_cmp\(\s*&(\w+)\s*\)\s*\)", pbody))
        if len(bs) != 1:
            raise Undecided("anchor lost: prepare_frame's binary_search_by(|t| t.total_cmp(&x)) call (V-R8)")
        b = bs[0]
        pbody2 = pbody[:b.start()] + "bsearch_total_cmp(%s, %s)" % (b.group(1), b.group(3)) + pbody[b.end():]
        roles["normalized_time"] = b.group(3)
        m = re.search(r"let\s+(\w+)\s*=\s*match\s+bsearch_total_cmp", pbody2)
        if not m:
            raise Undecided("anchor lost: prepare_frame's `let <index> = match <search>`")
        roles["frame_index"] = m.group(1)
        report["edits_applied"].append("V-R8 prepare_frame")
        report["edits_applied"].append("V-R3 prepare_frame")
        pcs = [dict(c) for c in contracts if c["fn"] == "prepare_frame"]
        for c in pcs:
            t = c["text"]
            for k in roles:
                t = re.sub(r"\b%s\b" % k, "\0ROLE_%s\0" % k, t)
            for k, v in roles.items():
                t = t.replace("\0ROLE_%s\0" % k, v)
            c["text"] = t
        pcontract = "".join(c["text"] for c in pcs if c["kind"] == "contract")
        # proof block goes after the last statement of the body (before the tail expression)
        depth, last = 0, -1
        for i, ch in enumerate(pbody2):
            if ch in "{([":
                depth += 1
            elif ch in "})]":
                depth -= 1
            elif ch == ";" and depth == 1:
                last = i
        if last < 0:
            raise Undecided("anchor lost: prepare_frame has no statement before its tail expression")
        for c in pcs:
            if c["kind"] == "at" and c["where"] == "body-start":
                pass
        tail = "".join(c["text"] for c in pcs if c["kind"] == "at" and c["where"] == "tail")
        start = "".join(c["text"] for c in pcs if c["kind"] == "at" and c["where"] == "body-start")
        pbody2 = pbody2[:1] + "\n" + start + pbody2[1:last + 1] + "\n" + tail + pbody2[last + 1:]
        if mutate:
            pbody2 = mutate("prepare_frame", pbody2)
        out.append(strip_doc(pe) + "\n\n" + strip_doc(pl) + "\n\n")
        out.append(psig2.rstrip() + "\n" + pcontract + pbody2 + "\n\n")
        report["functions"].append({"function": "enum TimeScalePosition", "file": TIMESCALE, "line": peline, "sha256_16": vlib.sha(pe)})
        report["functions"].append({"function": "struct TimeScaleLoopState", "file": TIMESCALE, "line": plline, "sha256_16": vlib.sha(pl)})
        report["functions"].append({"function": "prepare_frame", "file": TIMELINE, "line": vlib.line_of(tsrc, ls), "sha256_16": vlib.sha(porig), "contract_clauses": pcontract.count(",\n")})
    except Undecided as e:
        report["skipped"].append(str(e))
        out.append("// prepare_frame not extracted; stand-ins so that the trusted declarations below still type-check\npub enum TimeScalePosition { NotStarted, Active(f32, TimeScaleLoopState), Ended(f32) }\npub struct TimeScaleLoopState { pub is_repeating: bool, pub is_reversing: bool }\n")
    post = os.path.join(vlib.VERIF, "contracts/verus/postlude.rs")
    if os.path.exists(post):
        out.append(open(post).read())
    out.append("} // verus!\n\nfn main() {}\n")
    text = "".join(out)
    scan = {}
    for pat in ("assume(", "admit(", "external_body", "assume_specification", "axiom", "external_type_specification", "uninterp"):
        n = len(re.findall(r"(?<![\w/])" + re.escape(pat), text))
        scan[pat] = n
    report["assumption_scan"] = scan
    report["edits_catalogue"] = EDITS
    return text, report


if __name__ == "__main__":
    try:
        text, rep = assemble()
    except Undecided as e:
        print("UNDECIDED:", e, file=sys.stderr)
        sys.exit(2)
    outp = sys.argv[1] if len(sys.argv) > 1 else "/dev/stdout"
    open(outp, "w").write(text)
    import json
    print(json.dumps({k: rep[k] for k in ("edits_applied", "assumption_scan")}, indent=1), file=sys.stderr)
