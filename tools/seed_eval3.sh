#!/bin/bash
# usage: seed_eval3.sh <seed-dir> <demo-dest> <props...>   (dev helper: re-evaluate a packaged seeded change on the current tree)
D=$1; dest=$2; shift 2
P=$(basename $D); W=/tmp/seedchk-$P
cd /repo; git diff --quiet || { echo dirty; exit 9; }
rm -rf $W; git worktree add -q --detach $W HEAD; cp /repo/Cargo.lock $W/ 2>/dev/null
DEMO=$(ls $D/demo_*.rs | head -1); mkdir -p $(dirname $W/$dest); cp $DEMO $W/$dest
pk="-p mina"; case "$dest" in core/*) pk="-p mina_core";; bevy/*) pk="-p bevy_mina";; esac; tn=$(basename $dest .rs)
cd $W
echo "[confirm] demo WITHOUT: $(cargo test -q --offline $pk --test $tn 2>&1 | grep -E '^test result' | tail -1)"
git apply $D/patch.diff || echo "PATCH FAIL"
mv $W/$dest /tmp/sd_$P.rs
echo "[confirm] suite WITH: $(cargo test --workspace --no-fail-fast --offline 2>&1 | grep -E '^test result' | awk '{p+=$4; f+=$6} END {print "passed="p" failed="f}')"
cp /tmp/sd_$P.rs $W/$dest
echo "[confirm] demo WITH: $(cargo test -q --offline $pk --test $tn 2>&1 | grep -E '^test result' | tail -1)"
cd /repo; git worktree remove --force $W; git apply $D/patch.diff; cd /verif
for q in "$@"; do s=$(date +%s); r=$(./check $q 2>&1 | grep -E "^VIOLATION|^OK|UNDECIDED|VACUITY" | cut -c1-230 | head -4); e=$(date +%s); echo "[check $q] $((e-s))s: $r"; done
git -C /repo checkout -- .
