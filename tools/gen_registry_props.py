TB_K = ["Kani 0.68.0", "CBMC 6.11.0", "cvc5 1.0.3", "CaDiCaL 3.0.0 / Kissat 4.0.1"]
TB_V = ["Verus 0.2026.09.13 / Z3", "A2 f32 order axioms (cross-checked bit-precisely by Kani)", "A3 Easing::clone == identity"]
ADUR = "A4': Duration::as_secs_f32 / from_secs_f32 are replaced in the animator harnesses by uninterpreted functions (monotone, 0 <-> ZERO) over durations below 2^23 s (97 days); from_secs_f32(0)==ZERO is proved on std, monotonicity of as_secs_f32 on that domain is NOT machine-proved as one obligation (Kissat and cvc5: no result in 3000 s); it is assembled from: float addition monotone / integer seconds exact (Kani, dur_add_monotone), n as f32/1e9 monotone in [0,1] (exhaustive native enumeration of all 10^9 values), as_secs_f32 == s as f32 + n as f32/1e9 (std's definition; sampled natively), composed in three lines in verif_dur.rs"
ATL = "timelines inside the animator / merged timeline are ARBITRARY values of the abstract contract TL (step function of time, shows substituted start values up to the delay, constant from duration() on (terminal constancy: C03 ts_lemma_duration_agrees_*), duration() > delay() (a cycle has positive length; a delay large enough to absorb the whole span in f32 is excluded), touches only its own properties); that generated timelines satisfy TL is C01/C08/C09/C10's business"
P["C01"] = {"assumptions": [A["KANI"], A["FLOAT"], "V-R1: from_keyframes verified for &Vec<Keyframe> (the derive macro's call shape)", "value function pure", "interpolate_value enters route V as an uninterpreted function; its definition is the Kani-proved contract"],
            "trusted_base": TB_V + TB_K, "not_decided": ["prepare_frame is proved for every number of keyframes ASSUMING std's documented binary-search contract (A7); the real std search is executed only in the bounded Kani harnesses (0,1,2,3,4,6,8,16 master keyframes)"]}
P["C02"] = {"assumptions": [A["A1"], A["KANI"], A["FLOAT"]], "trusted_base": TB_K + TB_V,
            "not_decided": ["the chain interpolate_value = lerp(start,end,easing(frac)) ; frac endpoints ; easing(0)=0,easing(1)=1 ; lerp endpoints is four machine-checked contracts composed by substitution in DESIGN.md, not one machine-checked harness (the all-in-one harness did not return in 300 s)",
                            "float keyframe values: exact (0 ulp) for finite values is what is proved; integer types: exact for values exactly representable in f32"]}
P["C04"] = {"assumptions": [ADUR, ATL, A["KANI"]], "trusted_base": TB_K, "not_decided": []}
P["C05"] = {"assumptions": [ADUR, ATL, A["KANI"]], "trusted_base": TB_K, "not_decided": []}
P["C06"] = {"assumptions": [ADUR, ATL, A["KANI"]], "trusted_base": TB_K,
            "not_decided": ["'within float rounding' for inexact step splits: no contract bounds the sensitivity of an arbitrary eased timeline to a 1 ns perturbation; advance(a);advance(b)==advance(a+b) is decided only through: time accumulates exactly (Duration add) and values are a function of the accumulated time (advance_contract)"]}
P["C07"] = {"assumptions": [ADUR, ATL, A["A1"], A["KANI"]], "trusted_base": TB_K,
            "not_decided": ["QUICK TIER: the Repeat::Times case of ts_lemma_duration_agrees (every position at t >= duration() is terminal) is a single 13-17 minute cvc5 query and runs in the thorough tier only; the quick tier proves the None and Infinite cases, all six get_position mode contracts, and runs the native frame simulation", "that real (generated) timelines meet the abstract contract TL used here - in particular 'terminal values for every t >= duration()' - is the business of C03's contracts (ts_lemma_duration_agrees_*: proved for every configuration since the fix of the end-instant defect, DESIGN.md 8.14) and of the native Bevy/derive searches, not of this check's harnesses"]}
P["C08"] = {"assumptions": [A["KANI"], A["A5"], "generated update assigns a field only if value_at returns Some (C17 harnesses)"], "trusted_base": TB_V + TB_K, "not_decided": []}
P["C10"] = {"assumptions": [A["A1"], A["KANI"], A["FLOAT"]], "trusted_base": TB_V + TB_K, "not_decided": []}
P["C11"] = {"assumptions": [A["KANI"]], "trusted_base": TB_K, "not_decided": ["bounded: 0..5, 7, 8 (and 9 in the thorough tier) keyframes (std sort executed with unwinding assertions); positions fully symbolic. Downstream, sorted distinct positions determine everything (C01 contracts take the sorted list)"]}
P["C12"] = {"assumptions": [ATL, A["KANI"], "V-R7: MergedTimeline::update is verified as an inherent method against a Verus-side declaration of the Timeline trait (update only); a component is ANY implementation of update"], "trusted_base": TB_K + ["Verus 0.2026.09.13 / Z3"],
            "not_decided": ["update (ordered overlay) is proved for every number of components (Verus); start_with, delay, duration, repeat, cycle_duration, clone use iter_mut / iterator adapters that Verus does not accept: bounded, 0..5 components"]}
P["C13"] = {"assumptions": [A["KANI"], A["FLOAT"], "lyon_geom's Bezier polynomial is executed, not assumed"], "trusted_base": TB_K,
            "not_decided": ["deductively: range [0,1] for OutSine, OutQuad, OutCubic, OutQuart, OutQuint, OutExpo (no result in 900-1500 s with Kissat; the other 20 non-Back curves are proved, 8 in the quick tier, 12 in the thorough tier), monotonicity and In/Out point-mirror (harnesses did not return within 1200 s). These three sentences are instead decided in the thorough tier by evaluating the real Easing::calc at EVERY f32 in [0,1] (native_easing_exhaustive: complete by enumeration, tolerance 4*f32::EPSILON for 'to float rounding'); not a deductive proof and listed with the bounded groups"]}
P["C14"] = {"assumptions": [A["KANI"], A["FLOAT"]], "trusted_base": TB_K,
            "not_decided": ["betweenness / same-value / nearest for 16..64-bit integer types and f32/f64 over all f32 x (two symbolic float products: no result in 600 s with cadical, kissat or cvc5); 8-bit types are proved for all x in the thorough tier", "monotonicity in x", "glam: Vec3A, Vec4, Quat, DQuat (SIMD-backed / delegating to glam's own lerp) are not covered; the other 17 vector types are proved component-wise"]}
P["C20"] = {"assumptions": [A["A1"], A["KANI"], A["FLOAT"]], "trusted_base": TB_K + TB_V,
            "not_decided": ["debug == release: every proof runs with overflow checks on (debug semantics) and shows no overflow, so both profiles compute the same; native replays run in the debug profile only", "Easing::Custom and Back-family overshoot beyond an integer type's range (documented panic)"]}
A6T = "A6: Bevy's ECS (queries, Changed<> filtering, system ordering .before(animate), event buffering, Time) is replaced by shims; the per-entity loop bodies of animate/select_animation/chain_animations are extracted byte-for-byte each run (tools/extract_bevy.py) with the loop header turned into a function header and `continue` into `return`"
P["C18"] = {"assumptions": [A6T, "A4' Duration::as_secs_f32 abstracted as a monotone function", A["KANI"]], "trusted_base": TB_K + ["shims in contracts/kani/bevy/shim.rs"],
            "not_decided": ["multi-frame sentences (Ended no later than one frame after the position reaches the duration; exactly one Ended per run) follow from the one-step contract by induction over frames (state monotone, Ended absorbing, Ended <=> pos >= duration at the step) - argued in DESIGN.md, not machine-checked; additionally exercised (bounded) by native_bevy_frames_search: the extracted loop body over up to 4000 frames with real timelines and real Duration arithmetic", "that Bevy runs the system once per frame with the real Time; plugin registration (bevy/src/lib.rs:139-146)"]}
P["C19"] = {"assumptions": [A6T, A["KANI"]], "trusted_base": TB_K + ["shims in contracts/kani/bevy/shim.rs"],
            "not_decided": ["'the chain never fires when some OTHER animator on the entity ended': AnimationStateChanged carries no component type, so chain_animations::<K,T> cannot tell; with the one-animator-per-entity shim this cannot be expressed - recorded as known finding C19-event-has-no-component-type (DESIGN.md), demonstrated by reading the event type, not by a harness",
                            "Changed<> filtering, .before(animate) ordering, event buffering across frames (A6)"]}
P["C17"] = {"assumptions": [A["KANI"], "rustc's expansion of derive(Animate) is what is verified; the proc-macro code itself (syn/quote) is not within reach of the verifiers", "callees replaced by scripted stubs: the generated glue is proved against every behaviour of the callees"],
            "trusted_base": TB_K + TB_V, "not_decided": ["bounded over programs: four struct shapes (see bound); generic structs, tuple structs and enums are rejected by the macro at compile time"]}
P["C09"] = {"assumptions": [A["A5"], A["KANI"], "generated update takes &self: no interior mutability in SubTimeline/TimeScale/generated struct (textual scan)"],
            "trusted_base": TB_K + TB_V, "not_decided": ["'independent of the order of queries' is by A5 (update cannot write to self) plus update's result being a function of (self, time) on the animated fields (update_contract: prior field content irrelevant)"]}

for pid, why in (("C11", "bounded stand-in: TimelineBuilderArguments::from is verified by contract harnesses for 0..5, 7, 8, 9 keyframes (std sort executed); positions and timing fully symbolic"),
                 ("C12", "mixed: MergedTimeline::update (the ordered overlay) is proved for every number of components by Verus on the extracted loop; start_with and the timing aggregates are bounded stand-ins (contract harnesses for 0..5 arbitrary component timelines); Repeat's order is proved completely"),
                 ("C17", "bounded over programs: contract harnesses on the real derive expansion for four struct shapes, every value symbolic; from_keyframes itself is proved for every size (Verus)")):
    P[pid]["level"] = "other"
    P[pid]["explanation"] = why
for pid, why in (("C15", "bounded over sentences: timeline! is compared with the documented builder chain on rustc's real expansion for a family of sentences covering every grammar production; compile-time rejection of ill-formed sentences is not covered"),
                 ("C16", "bounded over sentences: animator! is compared with StateAnimatorBuilder on rustc's real expansion for a family of blocks covering every production; behaviour over histories is C04/C05's (any animator the builder produces)")):
    P[pid] = {"assumptions": [A["KANI"], "the macro's own code (syn parser + quote! emitter) is not within reach of the verifiers; its OUTPUT for each sentence is what is verified",
                              "from_keyframes replaced by a capturing stub, so structural equality of what the two timelines were built from is what is compared"],
              "trusted_base": TB_K, "level": "other", "explanation": why,
              "not_decided": ["sentences outside the family", "that ill-formed sentences (unknown suffix, missing %, non-integer repeat, keyframe without braces) are rejected at compile time: a harness cannot contain code that does not compile"]}

# bounded native searches on the real code that always run with the property's check (never counted as proved)
P["C11"]["native"] = ["native_builder_search"]
P["C17"]["native"] = ["native_derive_search", "native_builder_stable_search"]
P["C12"]["native"] = ["native_merged_search"]
P["C18"]["native"] = ["native_bevy_frames_search"]
P["C07"]["native"] = ["native_bevy_frames_search"]
P["C13"]["native_thorough"] = ["native_easing_exhaustive"]
P["C06"]["native"] = ["native_dur_search"]
P["C01"]["native"] = ["native_prepare_search", "native_builder_stable_search"]
P["C10"]["native"] = ["native_prepare_search"]

