P["C01"] = {"assumptions": [A["KANI"], A["FLOAT"]], "trusted_base": ["Verus 0.2026.09.13 / Z3", "Kani 0.68.0 / CBMC 6.11.0"], "not_decided": []}
