claim("C03",
  "Kani function contracts on TimeScale::get_position/get_duration (proof_for_contract, cvc5/CaDiCaL), lemmas over the contracts",
  "Every clause of the statement is a postcondition of the real get_position/get_duration, proved for all f32 (cycle, delay, time), all u32 repeat counts, both directions, in bit-precise IEEE-754 (domain split into 6 mode harnesses whose union is total); lemmas show the contract implies mirror symmetry, terminal constancy and agreement with the reported duration. No input bound of any kind.",
  "A1 (fmod abstracted by its IEEE facts), interior linearity stated with 4*EPSILON tolerance against the f32 formula; generated accessors' delegation is checked under C17. Kani/CBMC/cvc5 trusted.",
  "DESIGN.md section 5 C03, section 3 A1")
