claim("C03",
  "Kani function contracts on TimeScale::get_position/get_duration (proof_for_contract, cvc5/CaDiCaL), lemmas over the contracts",
  "Every clause of the statement is a postcondition of the real get_position/get_duration, proved for all f32 (cycle, delay, time), all u32 repeat counts, both directions, in bit-precise IEEE-754 (domain split into 6 mode harnesses whose union is total); lemmas show the contract implies mirror symmetry, terminal constancy and agreement with the reported duration. No input bound of any kind.",
  "A1 (fmod abstracted by its IEEE facts), interior linearity stated with 4*EPSILON tolerance against the f32 formula; generated accessors' delegation is checked under C17. Kani/CBMC/cvc5 trusted.",
  "DESIGN.md section 5 C03, section 3 A1")
KNOTE = "Kani/CBMC/cvc5/CaDiCaL/Kissat and Verus/Z3 are trusted. Machine arithmetic is bit-precise IEEE-754 / two's complement, never mathematical."
claim("C01",
  "Verus contracts + loop invariant on the extracted real from_keyframes/get_bounding_frames/value_at (unbounded); Kani contracts on interpolate_value/prepare_frame",
  "The frame list from_keyframes builds equals, for EVERY keyframe list (any length, any sparse pattern, any easing pattern), the fold the statement describes (synthetic 0% frame with default value + default easing, one frame per defining keyframe with the easing in force, held 100% frame); the index map is the master-to-property map; the O(1) lookup returns consecutive frames that bracket the position (lemma over the `linked` invariant that from_keyframes establishes); value_at = interpolate(lookup(clamp t)); interpolate_value = start.lerp(end, START easing((t-t0)/(t1-t0))) for all positions (Kani, recording probe types). prepare_frame (extracted, Verus) is proved for EVERY number of master keyframes assuming std's documented binary-search contract (A7); the real std search is executed by bounded Kani harnesses (0..16, 64 keyframes) and a native search (1..40 keyframes). For keyframes sharing a position the builder keeps insertion order (bounded native search, 2..96 keyframes).",
  "A2 (f32 order axioms, each cross-checked by a Kani harness over all bit patterns), A3, V-R1 (from_keyframes taken at &Vec, the derive macro's call shape), pure value function; interpolate_value enters Verus as an uninterpreted function. " + KNOTE,
  "DESIGN.md section 5 C01")
claim("C02",
  "Kani contracts on TimeScale::get_position (exact endpoints, hold-at-100%, terminal constancy), interpolate_value, Lerp endpoints, easing endpoints; Verus lookup lemma",
  "Exact-at-keyframe follows from four machine-checked contracts composed by substitution: interpolate_value = lerp(start,end,easing(frac)); frac is exactly 0 / 1 at the segment ends; every built-in easing maps 0->0, 1->1 exactly; lerp(a,b,0)=a, lerp(a,b,1)=b exactly for every numeric type. Start/end/hold: get_position's contract (NotStarted <=> t<delay; exactly 100% at the end of every forward pass incl. exact cycle multiples; terminal <=> t-delay > cycle*(n+1), then constant), prepare_frame's phase mapping.",
  "A1 (fmod facts). The composition step is an argument in DESIGN.md, not one harness. " + KNOTE,
  "DESIGN.md section 5 C02")
claim("C04",
  "Kani: representation invariant of MappedTimelineAnimator + set_state contract from a fully symbolic pre-state (induction over histories)",
  "inv holds after construction and is preserved by advance and set_state from EVERY pre-state satisfying it, so it holds after every history; under inv, set_state leaves current_values bit-identical for every target state, and set_state(current) changes no field at all. Timelines in the map are arbitrary instances of the abstract timeline contract. No depth bound.",
  "A4' (Duration<->f32 conversions abstracted as monotone functions), abstract timeline contract TL for the map's timelines (generated timelines satisfy it per C08/C09/C10), 3-valued state type (the code uses State only via == and clone). " + KNOTE,
  "DESIGN.md section 5 C04")
claim("C05",
  "Kani: set_state/advance/new transition contracts over the abstract view (current, time-in-state, live pause, start overrides), by induction",
  "The postcondition of set_state is the documented transition function (same-state identity; resume at the remembered position without re-blending; otherwise time=0 and exactly one start_with on the target from the values held; pause recorded iff leaving an animated state for an un-animated one; discarded on entering an animated state; kept between un-animated states), proved from every pre-state satisfying the invariant; advance adds exactly the elapsed Duration and re-evaluates from absolute time.",
  "as C04", "DESIGN.md section 5 C05")
claim("C06",
  "Kani: advance contract (values are a function of accumulated time) + advance(0) identity",
  "advance_contract shows current_values after advance = F(current timeline, accumulated time) on its properties and old values elsewhere, with time' = time + from_secs_f32(dt) exactly (integer Duration arithmetic): values depend on the history only through the accumulated Duration. advance(0) is a whole-struct identity.",
  "as C04; 'within float rounding' for inexact splits is not decided (stated in evidence)", "DESIGN.md section 5 C06")
claim("C07",
  "Kani: is_ended contract + stability under advance; TimeScale duration/terminal lemmas; MergedTimeline::duration = max",
  "is_ended <=> (no timeline || as_secs_f32(time) >= duration()), never under an infinite duration, stable under further advances (monotone time); merged duration = max of components (infinite absorbing); the reported total duration agrees with the behaviour for every configuration (from t >= duration() on, every position the TimeScale contract allows is the terminal one - proved without an exactness side condition since the fix of the end-instant defect) and the terminal position is constant.",
  "as C04 + A1; that real timelines are terminal for every t >= duration() is C03's lemma (all configurations; its Repeat::Times case is a 13-17 min query proved in the thorough tier only, the quick tier proves the other cases and runs the native frame simulation). ", "DESIGN.md section 5 C07, 8.14")
claim("C08",
  "Verus: from_keyframes/value_at postconditions (no defining keyframe => empty => None); Kani: prepare_frame None iff no keyframes, animator/merged frame clauses",
  "For every keyframe list: no keyframe defines the property => frames and map empty => value_at returns None for every (t, hint, flag) (unbounded, Verus); no keyframes => prepare_frame returns None; the animator's advance/set_state and MergedTimeline::update leave unanimated properties bit-identical.",
  "that the generated update assigns a field only on Some is checked under C17's harnesses when built; A5 (&self cannot mutate). " + KNOTE, "DESIGN.md section 5 C08")
claim("C10",
  "Verus: get_frame/override_start_value/lookup contracts; Kani: get_position loop-state flags, prepare_frame flag mapping",
  "The substituted start frame is returned iff enabled && index==0 && present (get_frame, all sizes); override_start_value replaces (not merges) and preserves wf/linked; the enable flag is on exactly for NotStarted and for Active && !repeating && !reversing (prepare_frame against an arbitrary callee result), and the flags mean 'first forward pass' (lemma over get_position's contract).",
  "A1, A2, A3. " + KNOTE, "DESIGN.md section 5 C10")
claim("C11",
  "Kani contract harness on TimelineBuilderArguments::from (sort executed, N in {0..5, 7, 8, 9} keyframes, symbolic positions) + native search over every insertion order of <= 8 keyframes (sampled to 16)",
  "For 0..5, 7, 8 (9 in the thorough tier) keyframes in any insertion order with fully symbolic positions: keyframes come out sorted, boundary_times[i] is keyframe i's position, nothing lost or duplicated, timing reaches the TimeScale. Bounded in the number of keyframes (labelled bounded, not counted as proved); the downstream contracts (C01) take the sorted list, so equal sorted lists give equal timelines.",
  "bounded: N in {0..5, 7, 8, 9} (Kani), every insertion order of n <= 8 and samples to n = 16 (native execution; stands in with a concrete order when a Kani obligation is undecided). " + KNOTE, "DESIGN.md section 5 C11, 8.13")
claim("C12",
  "Verus loop-invariant proof of MergedTimeline::update for any number of components + Kani harnesses on MergedTimeline over arbitrary abstract component timelines (0..5 components)",
  "update = components applied in order for EVERY number of components (Verus, extracted loop); bounded (Kani, 0..5): update = in order (later wins), start_with reaches each once, delay=min, duration=max, repeat=max (Repeat is a total order), cycle=common-or-None, clone equivalent, single wrap transparent, disjoint components commute. Bounded in the number of components (0..5), components themselves arbitrary.",
  "update: unbounded (Verus); the rest bounded: <=5 components over abstract TL (Kani) and 0..12 concrete components (native search). " + KNOTE, "DESIGN.md section 5 C12")
claim("C13",
  "Kani per-variant harnesses on Easing::calc (endpoints exact, dispatch == published control points for all x, Back range), known finding for timing-function semantics",
  "All 29 built-ins: calc(0)==0 and calc(1)==1 exactly; for every f32 x in [0,1] each variant computes the Bezier polynomial of its PUBLISHED control points (table typed from CSS/easings.net, not from easing.rs); Linear is the identity; custom easings are used as given. The timing-function reading (value at horizontal position x) is a recorded known finding. Range of non-Back curves / monotonicity / mirror are not decided.",
  "lyon_geom polynomial executed. " + KNOTE, "DESIGN.md section 5 C13")
claim("C14",
  "Kani per-type harnesses on Lerp (endpoints for all types; betweenness/same-value for 8-bit types over all x), known finding for wide integers",
  "lerp(a,b,0)==a and lerp(a,b,1)==b exactly, without panic, for all nine integer types (all exactly representable values) and f32/f64; for i8/u8 (thorough tier) betweenness, no panic and lerp(a,a,x)==a for every f32 x in [0,1]. For wide integer types the same-value/betweenness laws are FALSE near the top of the range: recorded known finding with a native witness.",
  "wider types over all x not decided. " + KNOTE, "DESIGN.md section 5 C14")
claim("C20",
  "Kani automatic checks (overflow, panic, NaN, bounds) inside every contract proof over the valid-configuration domain; Verus index arithmetic",
  "Every contract harness of L-TS runs with overflow/NaN/panic checks on over all (cycle>0 finite, delay finite, any u32 repeat incl. u32::MAX, any finite time): no overflow (after the fix of Times(u32::MAX)), no NaN; positions in [0,1]; index arithmetic of the lookup cannot overflow for any size (Verus); interpolate_value has no 0/0; Back easings finite.",
  "A1. " + KNOTE, "DESIGN.md section 5 C20")
claim("C09",
  "Verus contract on override_start_value (replace, not merge); Kani contracts on the derive-generated update/start_with (modular, callees stubbed), clone harnesses",
  "update(&self) cannot change the timeline (A5, scanned); the generated update writes every animated field whose sub-timeline yields a value with that value regardless of the field's previous content (Kani on the real expansion, callees scripted), so the result is a function of (timeline, time); override_start_value replaces the override with frame0.with_value(v) and leaves frames/map/timing untouched for every size (Verus); generated start_with reaches every sub-timeline and leaves timescale/boundary times alone; TimeScale and MergedTimeline clones are equivalent.",
  "A5; struct family bounded (four shapes). " + KNOTE, "DESIGN.md section 5 C09")
claim("C17",
  "Kani harnesses on rustc's real expansion of derive(Animate) for a struct family, callees replaced by scripted recording stubs",
  "For each shape in the family: setters exist for exactly the animated fields (compile-time + exhaustive pattern on the keyframe data), keyframe_from copies the animated fields, build wires each field to its own getter/Default/sub-timeline and stores boundary times and timescale, accessors return the configured timing, update = prepare_frame then assign-iff-Some per field with one common (nt, idx, flag), start_with reaches each sub-timeline, excluded and remote-only fields are never written.",
  "bounded over programs (struct family); the proc-macro's own code is not verified, its output is; a native search runs the real derive output with the real callees (no stubs) and supplies concrete inputs for failed L-GEN obligations. " + KNOTE, "DESIGN.md section 5 C17")
claim("C18",
  "Kani step contract on the per-entity loop body of bevy animate, extracted byte-for-byte each run into a std-only crate with ECS shims",
  "One execution of the real loop body from EVERY animator state (enabled flag, position, timeline present/absent, any state), any frame delta, any timeline timing: disabled => nothing changes; position grows by exactly delta unless ended; state monotone; Waiting => pos < delay; Ended <=> was Ended or pos >= duration, never under infinite duration; evaluated at the current position iff Playing or ending unplayed; exactly one event iff the state changed, carrying the final state; Ended => component was evaluated at/after the end (after the fix).",
  "A6 (ECS shims: one entity, recording event writer, symbolic delta), A4' (Duration->f32 monotone). Multi-frame sentences follow by induction over frames (argued, not machine-checked) and are exercised, bounded, by a native simulation of the extracted body over up to 4000 frames with real mina timelines and real Duration arithmetic (this simulation found the end-instant defect repaired in /repo b86a6c2). " + KNOTE, "DESIGN.md section 5 C18")
claim("C19",
  "Kani step contracts on the loop bodies of select_animation and chain_animations (same extraction)",
  "select: same key => nothing restarts; new key => the animator gets a clone of that key's timeline started from the component's current values (evaluating it at time 0 reproduces them: no jump), position 0, state None; key without timeline => timeline None, component untouched. chain: the key moves to next[key] iff the event is Ended for this entity and the chain has an entry for the active key. The 'other animator on the entity' clause is a recorded known finding of the event type (not expressible with one animator per entity).",
  "A6. " + KNOTE, "DESIGN.md section 5 C19")
claim("C15",
  "Kani equivalence harnesses on rustc's real expansion of timeline! vs the builder chain, for a family of sentences (bounded over programs)",
  "For each sentence of a family that covers every production of the macro grammar (s/ms, for, after, Nx, infinite, reverse, easing path, from/to/N%, literal forms, argument permutations, bracketed lists) the macro-built timeline is structurally identical to the one the documented builder chain builds: same boundary times, same time scale (cycle, delay, repeat, reverse), and for every field the same captured keyframes (position, value-or-absent, easing), default value and default easing. Bounded over sentences; rejection of ill-formed sentences is not covered.",
  "Partial coverage of the property by design: DESIGN.md section 5 explains why the macro itself (syn/quote inside rustc) is out of reach; what is verified is its output. " + KNOTE, "DESIGN.md section 5 C15, section 8.10")
claim("C16",
  "Kani equivalence harnesses on rustc's real expansion of animator! vs StateAnimatorBuilder, for a family of blocks (bounded over programs)",
  "For each block of a family covering every production (default(state,{..}) / default(state, expr) / default(state) / none, `default` keyframe bodies, `A | B =>` arms, merged arms, unmentioned states) the macro-built animator equals the builder-built one: same initial state and values, same per-state merged timelines (captured structurally), same blend of the initial state. Behaviour over histories is then C04/C05's (they hold for any animator the builder produces).",
  "bounded over sentences; as C15. " + KNOTE, "DESIGN.md section 5 C16, section 8.10")
