"""Check driver: registry -> obligations -> verdict -> evidence (DESIGN.md section 4)."""
import json
import os
import re
import sys
import time

import tempfile

import vlib
from vlib import Undecided, log


def tempfile_dir(tag):
    return tempfile.mkdtemp(prefix="mina-verif-%s." % tag, dir=os.environ.get("TMPDIR", "/tmp"))

VERIF = vlib.VERIF
REGISTRY = os.path.join(VERIF, "contracts", "registry.json")


def load_registry():
    return json.load(open(REGISTRY))


def list_registry():
    reg = load_registry()
    for h in reg.get("kani", []):
        print("K %-45s %-8s %-9s %s" % (h["id"], h.get("tier", "quick"), h.get("kind"), ",".join(h["props"])))
    for v in reg.get("verus", []):
        print("V %-45s %-8s %-9s %s" % (v["id"], v.get("tier", "quick"), v.get("kind"), ",".join(v["props"])))
    return 0


def setup():
    """Warm the Kani dependency cache (registry crates) from files on disk only."""
    t0 = time.time()
    d, r = vlib.make_scratch("setup")
    try:
        vlib.inject_kani(r)
        import subprocess
        # warm the dependency caches by running one cheap harness per package (compiling ALL harnesses at once is
        # not possible: the prepare_frame group needs the scratch variant without get_position's contract)
        for pkg, tests, h in (("mina_core", False, "time_scale::verif_time_scale::ts_accessors_return_configuration"),
                              ("mina", True, "shape1::start_with_contract")):
            out = vlib.run_kani(r, pkg, [h], timeout_s=600, jobs=1, tests=tests, extra=["--no-assert-contracts"])
            res = out["results"].get(h)
            if not res or res["status"] != "Success":
                log(out["stdout"][-3000:])
                log("setup: warm-up harness %s did not verify" % h)
                return 1
        import verus_engine
        verus_engine.warm()
        st, txt = verus_engine.native_small_scope()
        if st != "agree":
            log("setup: native small-scope search did not agree on the unchanged tree (%s)" % st)
            log(txt[-2000:])
            return 1
        for name, spec in verus_engine.NATIVE_SEARCHES.items():
            if name == "native_easing_exhaustive":
                continue  # thorough tier only (4 minutes on 16 cores); nothing to warm that the others do not
            st, txt = spec["run"]()
            if st != "agree":
                log("setup: %s did not agree on the unchanged tree (%s)" % (name, st))
                log(txt[-2000:])
                return 1
        import extract_bevy
        cdir, _ = extract_bevy.write_crate(d)
        out = vlib.run_kani(cdir, None, ["verif::animator_api_contract"], timeout_s=600, jobs=1)
        res = out["results"].get("verif::animator_api_contract")
        if not res or res["status"] != "Success":
            log(out["stdout"][-3000:])
            log("setup: warm-up harness on the bevy extract did not verify")
            return 1
    except Undecided as e:
        log("setup failed: %s" % e)
        return 1
    finally:
        vlib.remove_scratch(d)
    log("setup done in %.0fs" % (time.time() - t0))
    return 0


def tier_ok(entry_tier, tier):
    return entry_tier == "quick" or tier == "thorough"


def classify_kani(h, res):
    """-> (verdict, detail). verdict in pass|fail|undecided|vacuous"""
    kind = h.get("kind", "lemma")
    if res is None:
        return "undecided", "harness did not run (not found / filtered out)"
    status = res["status"]
    nfailed = len(res["failed"])
    if res["n_checks"] == 0:
        return "undecided", "no result: timeout (%ss) or back-end error" % h.get("timeout", "?")
    if res["undetermined"]:
        return "undecided", "back end returned %s for %d checks" % (res["undetermined"][0]["status"], len(res["undetermined"]))
    if kind in ("canary", "finding"):
        if nfailed > 0:
            return "pass", "fails as expected: " + res["failed"][0]["description"]
        return "vacuous", "expected-to-fail harness verified"
    if kind == "cover":
        unsat = [c for c in res["covers"] if c["status"] not in ("Satisfied", "Covered")]
        if nfailed:
            return "fail", res["failed"][0]["description"]
        if unsat or not res["covers"]:
            return "vacuous", "cover not satisfied: " + (unsat[0]["description"] if unsat else "no cover checks")
        return "pass", "%d covers satisfied" % len(res["covers"])
    if status == "Success" and nfailed == 0:
        return "pass", ""
    if nfailed > 0:
        return "fail", "; ".join(sorted(set(c["description"] for c in res["failed"]))[:4])
    return "undecided", "status %s without failed checks" % status


def obligation_name(h, check):
    loc = check.get("location") or {}
    return "%s::%s [%s:%s]" % (h["id"], check["description"], os.path.basename(loc.get("file", "?")), loc.get("line", "?"))


def run_check(pid, tier, seed, only=None, keep=False):
    t0 = time.time()
    reg = load_registry()
    pinfo = reg.get("properties", {}).get(pid)
    if pinfo is None:
        log("property %s is not claimed (see MANIFEST.json not_applicable)" % pid)
        return 2
    kani_sel = [h for h in reg.get("kani", []) if pid in h["props"] and tier_ok(h.get("tier", "quick"), tier)]
    verus_sel = [v for v in reg.get("verus", []) if pid in v["props"] and tier_ok(v.get("tier", "quick"), tier)]
    skip = [x for x in os.environ.get("VERIF_DEV_SKIP", "").split(",") if x]  # development aid only (seed evaluations); never set by MANIFEST commands
    if skip:
        log("VERIF_DEV_SKIP: leaving out %s - this run does NOT decide the property" % skip)
        kani_sel = [h for h in kani_sel if h["id"] not in skip]
    if only:
        kani_sel = [h for h in kani_sel if h["id"] in only]
        verus_sel = [v for v in verus_sel if v["id"] in only]
    findings = [f for f in vlib.load_known_findings() if f["property"] == pid]
    open_findings = {f["harness"]: f for f in findings if f.get("status") == "open" and f.get("harness")}

    ev = {
        "property_id": pid, "tier": tier, "seed": seed, "level": "proof",
        "coverage": {}, "assumptions": [], "wall_s": 0.0, "violations": 0,
    }
    per = []  # per-obligation-group records
    violations = []
    undecided = []
    vacuous = []
    known_lines = []
    functions = []
    inj = None
    verus_report = None
    scratch = None
    scratch_dirs = []
    try:
        # ---------------- Route V
        if verus_sel:
            import verus_engine
            verus_report = verus_engine.run(pid, tier, verus_sel)
            for rec in verus_report["records"]:
                per.append(rec)
                if rec["verdict"] == "fail":
                    violations.append(rec)
                elif rec["verdict"] == "undecided":
                    undecided.append(rec)
                elif rec["verdict"] == "vacuous":
                    vacuous.append(rec)
            functions += verus_report.get("functions", [])
        # ---------------- Route K
        if kani_sel:
            def handle_results(hs, out, srepo):
                for h in hs:
                    h["_srepo"] = srepo
                    res = out["results"].get(h["harness"])
                    verdict, detail = classify_kani(h, res)
                    rec = {
                        "engine": "kani", "id": h["id"], "harness": h["harness"], "kind": h.get("kind"),
                        "function": h.get("function"), "bounded": h.get("bound"), "verdict": verdict, "detail": detail,
                        "checks": res["n_checks"] if res else 0,
                        "checks_ok": len([c for c in res["checks"] if c["status"] in ("Success", "Unreachable")]) if res else 0,
                        "solver": (res or {}).get("solver") or h.get("solver", "cadical"),
                        "solver_s": (res or {}).get("solver_s"),
                        "wall_ms": (res or {}).get("duration_ms"),
                        "clause": h.get("clause"),
                        "assumes": h.get("assumes", []),
                    }
                    per.append(rec)
                    if verdict == "fail":
                        rec["failed_checks"] = [obligation_name(h, c) for c in res["failed"]]
                        rec["failed_descriptions"] = [c["description"] for c in res["failed"]]
                        violations.append(rec)
                    elif verdict == "undecided":
                        undecided.append(rec)
                    elif verdict == "vacuous":
                        if h.get("kind") == "finding":
                            # the recorded defect no longer reproduces: no KNOWN-FINDING line, nothing suppressed
                            rec["verdict"] = "pass"
                            rec["detail"] = "recorded finding no longer reproduces"
                        else:
                            vacuous.append(rec)
                    if h.get("kind") == "finding" and verdict == "pass":
                        f = open_findings.get(h["id"])
                        if f:
                            known_lines.append("KNOWN-FINDING: property=%s %s" % (pid, f["what"]))
                            rec["known_finding"] = f["id"]
            groups = {}
            for h in kani_sel:
                key = (h["pkg"], bool(h.get("tests")), tuple(h.get("flags") or ()) + ((("--features=" + h["features"]),) if h.get("features") else ()), tuple(h.get("omit_contracts") or ()))
                groups.setdefault(key, []).append(h)
            scratches = {}
            for (pkg, tests, flags, omit), hs in groups.items():
                if pkg == "bevy_extract":
                    # L-BEVY: the extracted std-only crate (tools/extract_bevy.py), rebuilt from /repo each run
                    import extract_bevy
                    if "bevy" not in scratches:
                        sc = tempfile_dir("b")
                        scratch_dirs.append(sc)
                        cdir, brep = extract_bevy.write_crate(sc)
                        scratches["bevy"] = (cdir, {"functions": brep["functions"], "added_lines": 0, "rewrites": brep["edits"], "files": ["bevy_extract/src/lib.rs"]})
                    srepo, inj_g = scratches["bevy"]
                    for f in inj_g["functions"]:
                        if f not in functions:
                            functions.append(f)
                    if inj is None:
                        inj = inj_g
                    to = max(int(h.get("timeout", 300)) for h in hs)
                    out = vlib.run_kani(srepo, None, [h["harness"] for h in hs], timeout_s=to, jobs=8, extra=list(flags))
                    handle_results(hs, out, srepo)
                    continue
                if omit not in scratches:
                    sc, sr = vlib.make_scratch("k")
                    scratch_dirs.append(sc)
                    scratches[omit] = (sr, vlib.inject_kani(sr, omit_contracts=omit))
                srepo, inj_g = scratches[omit]
                if inj is None or not omit:
                    inj = inj_g
                for f in inj_g["functions"]:
                    if f not in functions:
                        functions.append(f)
                to = max(int(h.get("timeout", 300)) for h in hs)
                if tier == "thorough":
                    to *= 3
                try:
                    feats = [f.split("=", 1)[1] for f in flags if f.startswith("--features=")]
                    out = vlib.run_kani(srepo, pkg, [h["harness"] for h in hs], timeout_s=to, jobs=14, tests=tests,
                                        extra=["--no-assert-contracts"] + [f for f in flags if not f.startswith("--features=")],
                                        features=feats[0] if feats else None)
                except Undecided as e:
                    msg = str(e)
                    api_err = re.search(r"error\[E0(560|599|609|026|027|063|425|433)\][^\n]*\n\s*--> tests/verif_derive\.rs", msg)
                    if pkg == "mina" and tests and api_err:
                        # The derive-output harness no longer compiles against what the macro generates (a missing
                        # setter / sub-timeline field / keyframe-data field): the obligation "one setter and one
                        # sub-timeline per animated field, and only those" fails at type-checking time.
                        payload = {"property": pid, "obligation": "derive_output_api", "verifier": "rustc (type-checking the contract harness against the real derive expansion)",
                                   "verifier_output": msg[-5000:], "native_confirmed": False,
                                   "note": "no-failing-input-found: the generated API differs from the contract (see the rustc errors)"}
                        rec = {"engine": "kani", "id": "derive_output_api", "harness": "tests/verif_derive.rs", "kind": "contract", "function": "derive(Animate) expansion",
                               "bounded": hs[0].get("bound"), "verdict": "fail", "detail": msg[msg.find("error["):][:400], "checks": 1, "checks_ok": 0, "solver": "rustc", "solver_s": 0.0,
                               "clause": "the generated keyframe builder / keyframe data / timeline have exactly one member per animated field", "assumes": [],
                               "failed_checks": ["derive_output_api::harness does not type-check against the derive output"], "native_confirmed": False}
                        rec["replay_file"] = vlib.write_replay(pid, "derive_output_api", payload)
                        per.append(rec)
                        violations.append(rec)
                        continue
                    raise
                handle_results(hs, out, srepo)
            # ------------ failures -> counterexample -> native replay
            for rec in [r for r in violations if r["engine"] == "kani" and "replay_file" not in r]:
                h = next(x for x in kani_sel if x["id"] == rec["id"])
                confirm_kani_failure(pid, h["_srepo"], h, rec)
        # ------------ bounded native searches on the real code: always for the properties that register them; as a stand-in
        # (a disagreement is a violation with a concrete input; agreement decides nothing) when a bounded Kani obligation
        # they shadow came back undecided or failed without a replayable input
        import verus_engine as _ve
        registered = list(pinfo.get("native", [])) + (list(pinfo.get("native_thorough", [])) if tier == "thorough" else [])
        wanted = [n for n in registered if not only or n in only]
        for rec in undecided + [r for r in violations if not r.get("native_confirmed")]:
            if rec.get("engine") != "kani":
                continue
            if rec["id"].startswith("builder_args_n") and "native_builder_search" not in wanted:
                wanted.append("native_builder_search")
            if re.match(r"(prepare_frame|search_index|bsearch_contract)_n", rec["id"]) and "native_prepare_search" not in wanted:
                wanted.append("native_prepare_search")
            if rec["id"].startswith("merged") and "native_merged_search" not in wanted:
                wanted.append("native_merged_search")
            if ("derive" in (rec.get("harness") or "") or "::update_contract" in rec["id"]) and "native_derive_search" not in wanted:
                wanted.append("native_derive_search")
        for name in wanted:
            nrec = _ve.native_record(pid, name, _NATIVE_CACHE)
            per.append(nrec)
            if nrec["verdict"] == "fail":
                violations.append(nrec)
            elif nrec["verdict"] == "undecided" and name in registered:
                undecided.append(nrec)
    except Undecided as e:
        log("UNDECIDED: %s" % e)
        if not keep:
            for sc in scratch_dirs:
                vlib.remove_scratch(sc)
        if violations:
            # part of the check could not run, but an obligation that did run already failed: report it
            write_evidence(ev, pid, tier, seed, per, functions, inj, verus_report, pinfo, t0, violations, [{"id": "engine", "detail": str(e)[:2000]}], known_lines)
            for l in known_lines:
                print(l)
            for rec in violations:
                line = "VIOLATION property=%s replay=%s" % (pid, rec.get("replay_file", "none"))
                if not rec.get("native_confirmed"):
                    line += " obligation=%s no-failing-input-found" % re.sub(r"\s+", "_", rec["id"])
                print(line)
            return 1
        write_evidence(ev, pid, tier, seed, per, functions, inj, verus_report, pinfo, t0, [], [{"id": "engine", "detail": str(e)}], known_lines)
        return 2
    finally:
        pass
    if not keep:
        for sc in scratch_dirs:
            vlib.remove_scratch(sc)
    else:
        log("scratch kept at %s" % scratch_dirs)

    write_evidence(ev, pid, tier, seed, per, functions, inj, verus_report, pinfo, t0, violations, undecided + vacuous, known_lines)
    for l in known_lines:
        print(l)
    if violations:
        for rec in violations:
            line = "VIOLATION property=%s replay=%s" % (pid, rec.get("replay_file", "none"))
            if not rec.get("native_confirmed"):
                line += " obligation=%s no-failing-input-found" % re.sub(r"\s+", "_", rec["id"])
            print(line)
        return 1
    if vacuous:
        for rec in vacuous:
            log("VACUITY GUARD TRIPPED (framework problem, not a property violation): %s: %s" % (rec["id"], rec["detail"]))
        return 2
    if undecided:
        for rec in undecided:
            log("UNDECIDED: %s: %s" % (rec["id"], rec["detail"]))
        return 2
    if ev["coverage"]["obligations"] + ev["coverage"].get("obligations_bounded", 0) == 0:
        log("VACUITY GUARD TRIPPED (framework problem, not a property violation): the check generated no obligation at all")
        return 2
    print("OK property=%s tier=%s obligations=%d discharged=%d bounded=%d discharged_bounded=%d wall=%.0fs" % (
        pid, tier, ev["coverage"]["obligations"], ev["coverage"]["discharged"], ev["coverage"].get("obligations_bounded", 0),
        ev["coverage"].get("discharged_bounded", 0), time.time() - t0))
    return 0


_DERIVE_NATIVE = {}
_NATIVE_CACHE = {}


def confirm_kani_failure(pid, srepo, h, rec):
    """Counterexample -> native replay on the real code. Fills rec[replay_file, native_confirmed]."""
    payload = {
        "property": pid, "obligation": rec["id"], "harness": h["harness"], "failed_checks": rec.get("failed_checks"),
        "function_under_contract": h.get("function"), "clause": h.get("clause"),
        "how_to_replay": "./check %s --replay <this file>" % pid,
    }
    confirmed = False
    try:
        # which harness to search a concrete input with: the single-clause SAT harness if the
        # registry names one, else the failing harness itself
        targets = []
        for d in rec.get("failed_descriptions", []):
            m = re.search(r"(?:verif_\w+::)?(post_\w+|pre_\w+)\(", d)
            if m and h.get("cex_module"):
                targets.append(h["cex_module"] + "::" + m.group(1) + "_cex")
            elif h.get("cex_default"):
                targets.append(h["cex_default"])
        if not targets:
            targets = [h["harness"]]
        targets = list(dict.fromkeys(targets))[:3]
        tests = []
        outs_v = []
        for tg in targets:
            try:
                ts_, r = vlib.kani_counterexample(srepo, h["pkg"] if h["pkg"] != "bevy_extract" else None, tg, timeout_s=420, tests=bool(h.get("tests")),
                                                  features=h.get("features"), flags=tuple(h.get("flags") or ()))
                tests += ts_
                outs_v.append(r["stdout"][-3000:])
            except Undecided as e:
                outs_v.append("counterexample search undecided for %s: %s" % (tg, str(e)[:500]))
        payload["counterexample_harnesses"] = targets
        payload["verifier_output"] = "\n-----\n".join(outs_v)
        payload["concrete_playback_tests"] = tests
        outs = []
        for t in tests[:3]:
            failed, out = vlib.native_replay(srepo, h["pkg"] if h["pkg"] != "bevy_extract" else None, h["file"], t, tests=bool(h.get("tests")))
            outs.append({"native_failed": failed, "output": out[-3000:]})
            if failed:
                confirmed = True
                break
        payload["native_runs"] = outs
    except Undecided as e:
        payload["replay_error"] = str(e)
    if not confirmed and h.get("tests") and h.get("pkg") == "mina" and "derive" in (h.get("file") or ""):
        # L-GEN harnesses run the generated code against scripted stubs, so their counterexamples cannot be replayed natively;
        # search a concrete failing input on the real derive output with the real callees (bounded, native)
        try:
            import verus_engine
            if "native_derive_search" not in _NATIVE_CACHE:
                _NATIVE_CACHE["native_derive_search"] = verus_engine.native_derive_search()
            _DERIVE_NATIVE["status"], _DERIVE_NATIVE["txt"] = _NATIVE_CACHE["native_derive_search"]
            if _DERIVE_NATIVE["status"] == "disagree":
                confirmed = True
                payload["kind"] = "native_derive_search"
                payload["native_output"] = _DERIVE_NATIVE["txt"]
                payload["note"] = "failing input found by the bounded native search on the real derive(Animate) output (see native_output)"
            else:
                payload["native_derive_search"] = _DERIVE_NATIVE["status"] + ": " + _DERIVE_NATIVE["txt"][-600:]
        except Exception as e:  # the search is an extra; never let it mask the verdict
            payload["native_derive_search"] = "could not run: %s" % str(e)[:300]
    payload["native_confirmed"] = confirmed
    if not confirmed:
        payload["note"] = ("no-failing-input-found: the obligation verified on the pinned tree and now fails; the verifier's "
                           "counterexample (if any) did not reproduce natively (it may pass through an assumed contract / A1)")
    rec["native_confirmed"] = confirmed
    rec["replay_file"] = vlib.write_replay(pid, rec["id"], payload)


def replay(pid, path):
    payload = json.load(open(path))
    import verus_engine
    if payload.get("kind") in verus_engine.NATIVE_SEARCHES:
        status, txt = verus_engine.NATIVE_SEARCHES[payload["kind"]]["run"]()
        print(txt[-3000:])
        if status == "disagree":
            print("VIOLATION property=%s replay=%s" % (pid, path))
            return 1
        if status == "agree":
            print("replay passes on the current tree")
            return 0
        return 2
    if payload.get("kind") == "native_small_scope":
        import verus_engine
        status, txt = verus_engine.native_small_scope()
        print(txt[-3000:])
        if status == "disagree":
            print("VIOLATION property=%s replay=%s" % (pid, path))
            return 1
        if status == "agree":
            print("replay passes on the current tree")
            return 0
        return 2
    reg = load_registry()
    h = next((x for x in reg.get("kani", []) if x["id"] == payload.get("obligation")), None)
    if h is None or not payload.get("concrete_playback_tests"):
        print(json.dumps({k: payload.get(k) for k in ("property", "obligation", "failed_checks", "note")}, indent=1))
        log("no concrete input recorded for this obligation; verifier output is in the replay file")
        return 2
    scratch, srepo = vlib.make_scratch("r")
    try:
        vlib.inject_kani(srepo)
        any_failed = False
        for t in payload["concrete_playback_tests"]:
            failed, out = vlib.native_replay(srepo, h["pkg"], h["file"], t, tests=bool(h.get("tests")))
            print(out[-2000:])
            any_failed = any_failed or bool(failed)
        if any_failed:
            print("VIOLATION property=%s replay=%s" % (pid, path))
            return 1
        print("replay passes on the current tree")
        return 0
    except Undecided as e:
        log("UNDECIDED: %s" % e)
        return 2
    finally:
        vlib.remove_scratch(scratch)


def write_evidence(ev, pid, tier, seed, per, functions, inj, verus_report, pinfo, t0, violations, undecided, known_lines):
    proved = [r for r in per if r["verdict"] == "pass" and not r.get("bounded") and r.get("kind") not in ("canary", "cover", "finding")]
    bounded = [r for r in per if r["verdict"] == "pass" and r.get("bounded")]
    guards = [r for r in per if r.get("kind") in ("canary", "cover")]
    n_obl = sum(r.get("checks", 0) for r in per if not r.get("bounded") and r.get("kind") not in ("canary", "cover", "finding"))
    n_dis = sum(r.get("checks_ok", 0) for r in proved)
    n_obl_b = sum(r.get("checks", 0) for r in per if r.get("bounded"))
    n_dis_b = sum(r.get("checks_ok", 0) for r in bounded)
    backends = {}
    for r in per:
        key = "%s/%s" % (r["engine"], r.get("solver"))
        b = backends.setdefault(key, {"groups": 0, "checks": 0, "solver_s": 0.0})
        b["groups"] += 1
        b["checks"] += r.get("checks", 0)
        b["solver_s"] += float(r.get("solver_s") or 0.0)
    cmd = "./check %s --tier %s" % (pid, tier)
    trusted = list(pinfo.get("trusted_base", []))
    if verus_report:
        trusted += verus_report.get("trusted", [])
    samples = []
    for r in per[:60]:
        samples.append({k: r.get(k) for k in ("engine", "id", "kind", "function", "clause", "verdict", "checks", "checks_ok", "solver", "solver_s", "bounded", "detail") if r.get(k) not in (None, "", [])})
    ev["coverage"] = {
        "obligations": n_obl,
        "discharged": n_dis,
        "obligations_bounded": n_obl_b,
        "discharged_bounded": n_dis_b,
        "checker_cmd": cmd,
        "trusted_base": trusted,
        "rule": "an obligation is one verifier check (contract clause, harness assertion, or automatic overflow/panic/NaN/bounds check) inside a "
                "proof harness for this property; bounded harnesses (fixed structure size / unwinding) are counted separately and never as discharged proofs",
        "samples": samples,
        "functions_under_contract": functions,
        "groups_proved": [r["id"] for r in proved],
        "groups_bounded": [{"id": r["id"], "bound": r["bounded"]} for r in bounded],
        "vacuity_guards": [{"id": r["id"], "kind": r["kind"], "verdict": r["verdict"], "detail": r["detail"]} for r in guards],
        "back_ends": backends,
        "injection": {k: inj[k] for k in ("added_lines", "rewrites", "files")} if inj else None,
        "verus": {k: verus_report[k] for k in ("file_sha", "extraction", "assumption_scan", "verus_cmd", "verified", "errors", "time_s") if k in verus_report} if verus_report else None,
        "not_decided": pinfo.get("not_decided", []),
        "undecided_now": [{"id": r["id"], "detail": r["detail"]} for r in undecided],
        "known_findings_reported": known_lines,
        "violations": [{"id": r["id"], "failed_checks": r.get("failed_checks"), "native_confirmed": r.get("native_confirmed"), "replay": r.get("replay_file")} for r in violations],
    }
    if pinfo.get("level"):
        ev["level"] = pinfo["level"]
        ev["coverage"]["explanation"] = pinfo.get("explanation", "") + " Bounded obligations discharged: %d of %d; unbounded obligations discharged: %d of %d." % (n_dis_b, n_obl_b, n_dis, n_obl)
    ev["assumptions"] = list(pinfo.get("assumptions", []))
    if verus_report:
        ev["assumptions"] += verus_report.get("assumptions", [])
    ev["violations"] = len(violations)
    ev["wall_s"] = round(time.time() - t0, 1)
    vlib.write_evidence(pid, ev)
