#!/bin/bash
# usage: refactor_eval.sh <diff> <props...>  (dev helper: behaviour-preserving change must not raise an alarm)
D=$1; shift
cd /repo && git diff --quiet || { echo "repo dirty"; exit 9; }
git apply $D || { echo "does not apply: $D"; exit 8; }
cd /verif
for q in "$@"; do
  s=$(date +%s); out=$(./check $q 2>&1); rc=$?; e=$(date +%s)
  echo "[$(basename $(dirname $D))/$(basename $D) $q] rc=$rc $((e-s))s: $(echo "$out" | grep -E "^VIOLATION|^OK|UNDECIDED|VACUITY" | cut -c1-230 | head -4)"
done
git -C /repo checkout -- . ; git -C /repo status --short
