#!/bin/bash
# usage: mut_try.sh <file-in-repo> <python-replace-old> <new> <check args...>   (dev helper: applies a mutation to /repo, runs a check, reverts)
set -u
f=$1; old=$2; new=$3; shift 3
cd /repo && git diff --quiet || { echo "repo dirty"; exit 9; }
python3 - "$f" "$old" "$new" <<'PY'
import sys
f,old,new=sys.argv[1:4]
s=open('/repo/'+f).read()
assert s.count(old)>=1, "pattern not found"
open('/repo/'+f,'w').write(s.replace(old,new,1))
PY
cd /verif && ./check "$@" 2>&1 | tail -6; echo "exit=${PIPESTATUS[0]}"
cd /repo && git checkout -- . && git status --short
