#!/usr/bin/env python3
"""L-BEVY: mechanical extraction of the Bevy systems' per-entity logic into a std-only crate that
Kani can verify (DESIGN.md section 5, C18/C19; assumption A6).

Cut byte-for-byte from /repo/bevy/src/{animator,selection}.rs:
  enum AnimationState, struct AnimationStateChanged + impl, struct Animator<T> + Default + impl,
  struct AnimationSelector<K,T> + impl (new), struct AnimationChain<K> + impl,
  and the BODIES of the three `for` loops of `animate`, `select_animation`, `chain_animations`.
Stated drops: `#[derive(Component|Event|Reflect ...)]` and `#[reflect(ignore)]` attributes,
doc comments, `use bevy::...` lines; `pub(super)` -> `pub`.
Stated rewrites: each loop header becomes a function header (`fn <system>_step(...)`) whose
parameters are the loop variables and the system parameters, with Bevy types replaced by the
shims in contracts/kani/bevy/shim.rs (`Time`, `Targets<T>`, `Events`, `Selectors`, `Animators`);
`continue` inside the loop body -> `return`; `let Ok((mut selector, chain)) = selector_query.get_mut(*entity)`
is kept as written (the shim implements `get_mut`).
A lost anchor raises Undecided (exit 2).
"""
import os
import re
import sys

sys.path.insert(0, os.path.dirname(os.path.abspath(__file__)))
import vlib
from vlib import Undecided

ANIM = "bevy/src/animator.rs"
SEL = "bevy/src/selection.rs"


def strip_attrs_and_docs(text):
    out = []
    for l in text.split("\n"):
        st = l.strip()
        if st.startswith("///") or st.startswith("//!"):
            continue
        if re.match(r"#\[(derive|reflect)\b.*\]$", st):
            continue
        out.append(l)
    return "\n".join(out)


def cut_item(src, header_re, what):
    m = re.search(header_re, src, re.M)
    if not m:
        raise Undecided("anchor lost: %s" % what)
    ob = src.find("{", m.end() - 1)
    cb = vlib.find_matching_brace(src, ob)
    return src[m.start():cb + 1], vlib.line_of(src, m.start())


def cut_loop_body(src, fn_name, loop_re, what):
    ls, ob, cb = vlib.find_fn(src, fn_name, None)
    body = src[ob:cb + 1]
    m = re.search(loop_re, body)
    if not m:
        raise Undecided("anchor lost: loop header of %s" % what)
    lob = body.find("{", m.end() - 1)
    lcb = vlib.find_matching_brace(body, lob)
    # nothing but the loop may be in the system body
    rest = (body[1:m.start()] + body[lcb + 1:-1]).strip()
    if rest:
        raise Undecided("system %s has code outside its loop: %r" % (fn_name, rest[:80]))
    return body[lob + 1:lcb], src[ls:ob], vlib.line_of(src, ls)


def assemble(repo=None):
    repo = repo or vlib.REPO
    ap, sp = os.path.join(repo, ANIM), os.path.join(repo, SEL)
    if not (os.path.exists(ap) and os.path.exists(sp)):
        raise Undecided("anchor lost: bevy sources")
    a, s = open(ap).read(), open(sp).read()
    rep = {"functions": [], "edits": [
        "dropped: #[derive(..)], #[reflect(ignore)], doc comments, `use bevy::...`",
        "`pub(super)` -> `pub`",
        "loop header -> fn header with shim parameter types; `continue` -> `return`",
        "T: Component -> T: Component (shim marker trait)",
    ]}
    out = []

    def add(text, fn, file, line):
        rep["functions"].append({"function": fn, "file": file, "line": line, "sha256_16": vlib.sha(text)})

    for hdr, what in ((r"^pub enum AnimationState\s*\{", "enum AnimationState"),
                      (r"^pub struct AnimationStateChanged\s*\{", "struct AnimationStateChanged"),
                      (r"^impl AnimationStateChanged\s*\{", "impl AnimationStateChanged"),
                      (r"^pub struct Animator<T: Component>\s*\{", "struct Animator"),
                      (r"^impl<T: Component> Default for Animator<T>\s*\{", "impl Default for Animator"),
                      (r"^impl<T: Component> Animator<T>\s*\{", "impl Animator")):
        t, line = cut_item(a, hdr, what)
        add(t, what, ANIM, line)
        t2 = strip_attrs_and_docs(t).replace("pub(super) ", "pub ")
        if what == "enum AnimationState":
            t2 = "#[derive(Clone, Copy, Debug, Default, Eq, PartialEq)]\n" + t2.replace("    None,", "    #[default]\n    None,", 1) if "#[default]" not in t2 else "#[derive(Clone, Copy, Debug, Default, Eq, PartialEq)]\n" + t2
        out.append(t2 + "\n\n")
    for hdr, what in ((r"^pub struct AnimationSelector<K: AnimationKey, T: Component>\s*\{", "struct AnimationSelector"),
                      (r"^impl<K: AnimationKey, T: Component> AnimationSelector<K, T>\s*\{", "impl AnimationSelector"),
                      (r"^pub struct AnimationChain<K: AnimationKey>\s*\{", "struct AnimationChain")):
        t, line = cut_item(s, hdr, what)
        add(t, what, SEL, line)
        out.append(strip_attrs_and_docs(t).replace("pub(super) ", "pub ") + "\n\n")

    # ---- loop bodies
    body, sig, line = cut_loop_body(a, "animate", r"for \(entity, mut animator\) in animators\.iter_mut\(\)\s*\{", "animate")
    add(body, "animate (loop body)", ANIM, line)
    out.append("pub fn animate_step<T: Component>(entity: Entity, animator: &mut Animator<T>, time: &Time, targets: &mut Targets<T>, events: &mut Events) {"
               + re.sub(r"\bcontinue;", "return;", body) + "}\n\n")
    body, sig, line = cut_loop_body(s, "select_animation", r"for \(entity, current_values, mut selector\) in selector_query\.iter_mut\(\)\s*\{", "select_animation")
    add(body, "select_animation (loop body)", SEL, line)
    out.append("pub fn select_animation_step<K: AnimationKey, T: Component>(entity: Entity, current_values: &T, selector: &mut AnimationSelector<K, T>, animator_query: &mut Animators<T>) {"
               + re.sub(r"\bcontinue;", "return;", body) + "}\n\n")
    body, sig, line = cut_loop_body(s, "chain_animations", r"for ev in events\.iter\(\)\s*\{", "chain_animations")
    add(body, "chain_animations (loop body)", SEL, line)
    out.append("pub fn chain_animations_step<K: AnimationKey, T: Component>(ev: &AnimationStateChanged, selector_query: &mut Selectors<K, T>) {"
               + re.sub(r"\bcontinue;", "return;", body) + "}\n\n")
    text = "".join(out)
    for bad in ("unsafe", "kani::", "assume("):
        if bad in text:
            raise Undecided("extracted bevy text contains %s" % bad)
    return text, rep


def write_crate(dst_dir, scratch_repo=None):
    """Create <dst_dir>/bevy_extract (Cargo.toml + src/lib.rs = shim + extracted + harnesses)."""
    text, rep = assemble(os.path.join(scratch_repo) if scratch_repo else None)
    d = os.path.join(dst_dir, "bevy_extract")
    os.makedirs(os.path.join(d, "src"), exist_ok=True)
    shim = open(os.path.join(vlib.VERIF, "contracts/kani/bevy/shim.rs")).read()
    harness = open(os.path.join(vlib.VERIF, "contracts/kani/bevy/harness.rs")).read()
    open(os.path.join(d, "src/lib.rs"), "w").write(shim + "\n// ===== extracted from bevy/src/animator.rs, bevy/src/selection.rs =====\n" + text + "\n" + harness)
    open(os.path.join(d, "Cargo.toml"), "w").write(
        '[package]\nname = "bevy_extract"\nversion = "0.0.0"\nedition = "2021"\n\n[lib]\npath = "src/lib.rs"\n\n[workspace]\n\n[lints.rust]\nunexpected_cfgs = { level = "allow" }\n')
    return d, rep


if __name__ == "__main__":
    try:
        text, rep = assemble()
        print(text)
    except Undecided as e:
        print("UNDECIDED:", e, file=sys.stderr)
        sys.exit(2)
