import sys, json, os
sys.path.insert(0, os.path.dirname(os.path.abspath(__file__)))
import vlib
to=int(sys.argv[1]); 
extra=["--no-assert-contracts"]; hs=[]
for a in sys.argv[2:]:
    if a.startswith("--"): extra.extend(a.split("=",1))
    else: hs.append(a)
d, r = vlib.make_scratch()
try:
    rep = vlib.inject_kani(r, omit_contracts=tuple(os.environ.get("OMIT","").split(",")) if os.environ.get("OMIT") else ())
    out = vlib.run_kani(r, "mina_core", hs, timeout_s=to, jobs=int(os.environ.get("JOBS","14")), extra=extra, features=os.environ.get("FEATURES"))
    print("wall", out["wall_s"], "missing", out["missing"])
    for h,res in sorted(out["results"].items()):
        print(" ", h, res["status"], res["n_checks"], res["solver_s"], res["duration_ms"])
        for c in res["failed"][:5]: print("   FAIL:", c["description"], c["location"])
        for c in res["covers"]: print("   COVER:", c["status"], c["description"])
    if not out["results"]:
        print(out["stdout"][-5000:])
except vlib.Undecided as e:
    print("UNDECIDED", e)
vlib.remove_scratch(d)
