# ---- more Kani harnesses (exec'd by gen_registry.py; uses k(), TS, A1 from there) -------------
k("ts_lemma_flags_mean_first_forward_pass", *TS, ["C10"], "lemma", function="TimeScale::get_position (contract)",
  clause="contract's loop-state flags <=> 'first forward pass' as the statement reads it", solver="cvc5", assumes=[A1])

LERP = ("interpolation::verif_lerp", "mina_core", "core/src/verif_lerp.rs")
for t in ("i8", "u8", "i16", "u16", "i32", "u32", "i64", "u64", "usize"):
    k("law_%s::endpoints" % t, *LERP, ["C14", "C02"], "contract", function="<%s as Lerp>::lerp" % t,
      clause="lerp(a,b,0)==a, lerp(a,b,1)==b for all exactly representable a,b; no panic")
for t in ("i8", "u8"):
    k("law_%s::between_and_no_panic" % t, *LERP, ["C14", "C20"], "contract", tier="thorough", function="<%s as Lerp>::lerp" % t,
      clause="all a,b of the type, all f32 x in [0,1]: min<=r<=max, conversion never panics", solver="kissat", timeout=900)
    k("law_%s::same_value" % t, *LERP, ["C14"], "contract", tier="thorough", function="<%s as Lerp>::lerp" % t,
      clause="all a, all f32 x in [0,1]: lerp(a,a,x)==a", solver="kissat", timeout=900)
for t in ("i8", "u8"):
    k("nearest_grid16_%s" % t, *LERP, ["C14"], "contract", function="<%s as Lerp>::lerp (one macro body shared by all nine integer types)" % t,
      clause="result is the real interpolation rounded to nearest (exact integer oracle)", bound="x on the 17-point grid k/16; every a, b of the type")
k("f32_endpoints", *LERP, ["C14", "C02"], "contract", function="<f32 as Lerp>::lerp", clause="finite a,b: lerp(a,b,0)==a, lerp(a,b,1)==b exactly")
k("f64_endpoints", *LERP, ["C14"], "contract", function="<f64 as Lerp>::lerp", clause="a,b exactly representable in f32: endpoints exact")
k("canary_must_fail", *LERP, ["C14"], "canary")
k("finding_wide_int_between", *LERP, ["C14"], "finding", function="<i32 as Lerp>::lerp",
  clause="KNOWN FINDING C14-wide-int-rounding: betweenness for exactly representable i32 near the top of the range")

EASE = ("easing::verif_easing", "mina_core", "core/src/verif_easing.rs")
VARIANTS = ["linear", "ease", "ease_in", "ease_out", "ease_in_out", "in_sine", "out_sine", "in_out_sine", "in_quad", "out_quad", "in_out_quad",
            "in_cubic", "out_cubic", "in_out_cubic", "in_quart", "out_quart", "in_out_quart", "in_quint", "out_quint", "in_out_quint",
            "in_expo", "out_expo", "in_out_expo", "in_circ", "out_circ", "in_out_circ", "in_back", "out_back", "in_out_back"]
for vname in VARIANTS:
    k("%s::endpoints" % vname, *EASE, ["C13", "C02", "C10"], "contract", function="<Easing as EasingFunction>::calc",
      clause="calc(0)==0 and calc(1)==1 exactly (%s)" % vname)
    k("%s::dispatch_matches_published_points" % vname, *EASE, ["C13"], "contract", function="<Easing as EasingFunction>::calc",
      clause="for every x in [0,1]: the variant evaluates the Bezier polynomial of its PUBLISHED control points (%s)" % vname, solver="cvc5")
for vname in ("linear", "in_sine", "in_quad", "in_cubic", "in_quart", "in_quint", "in_expo", "in_circ"):
    k("%s::range" % vname, *EASE, ["C13", "C20"], "contract", function="<Easing as EasingFunction>::calc", solver="kissat",
      clause="stays within [0,1] (and finite) for every f32 x in [0,1]")
for vname in ("ease", "ease_in", "ease_out", "ease_in_out", "in_out_sine", "in_out_quad", "in_out_cubic", "in_out_quart", "in_out_quint", "in_out_expo", "in_out_circ", "out_circ"):
    k("%s::range" % vname, *EASE, ["C13", "C20"], "contract", tier="thorough", function="<Easing as EasingFunction>::calc", solver="kissat", timeout=500,
      clause="stays within [0,1] (and finite) for every f32 x in [0,1] (200-410 s each)")
for vname in ("in_back", "out_back", "in_out_back"):
    k("%s::range" % vname, *EASE, ["C13", "C20"], "contract", function="<Easing as EasingFunction>::calc",
      clause="finite and within [-1,2] on [0,1] (Back family overshoots by design)")
k("cubic_bezier_new_stores_points", *EASE, ["C13"], "contract", function="CubicBezierEasing::new", clause="segment (0,0)->(1,1) with the given control points")
k("custom_is_used_as_given", *EASE, ["C13"], "contract", function="<Easing as EasingFunction>::calc", clause="Custom(e).calc(x) == e.calc(x)")
k("finding_timing_function_semantics_out_quad", *EASE, ["C13"], "finding", function="<CubicBezierEasing as EasingFunction>::calc",
  clause="KNOWN FINDING C13-parameter-not-x: value at horizontal position bx(t) is by(t)", timeout=600)
k("canary_must_fail", *EASE, ["C13"], "canary")

SUB = ("timeline_helpers::verif_subtimeline", "mina_core", "core/src/verif_subtimeline.rs")
k("interpolate_uses_start_easing_and_linear_fraction", *SUB, ["C01", "C02", "C10"], "contract", function="interpolate_value",
  clause="result == start.value.lerp(end.value, START.easing.calc((t-t0)/(t1-t0))) for all positions; end easing never used", solver="cvc5")
k("interpolate_zero_length_segment_returns_start", *SUB, ["C01", "C02", "C20"], "contract", function="interpolate_value",
  clause="t1 == t0 => the start value itself (no 0/0)")
k("lemma_fraction_endpoints", *SUB, ["C02"], "lemma", clause="(t0-t0)/(t1-t0)==0, (t1-t0)/(t1-t0)==1 for all valid t0<t1", solver="cvc5")
k("lemma_fraction_range", *SUB, ["C02", "C20"], "lemma", clause="t0<=t<=t1 => fraction in [0,1]")
k("value_at_empty_is_none", *SUB, ["C08"], "contract", function="SubTimeline::value_at", clause="empty sub-timeline => None for all (t, hint, flag)")
k("canary_must_fail", *SUB, ["C01", "C02", "C08", "C10"], "canary")

TL = ("timeline::verif_timeline", "mina_core", "core/src/verif_timeline.rs")
OM = ["TimeScale::get_position"]
for n in (0, 1, 2, 3, 4, 6, 8, 16):
    k("prepare_frame_n%d" % n, *TL, ["C01", "C02", "C04", "C08", "C09", "C10"], "contract", function="prepare_frame",
      clause="None iff no keyframes; NotStarted=>(0%%,override on); Ended(p)=>(p,off); Active=>(t, on iff !repeating&&!reversing); index brackets t (hint_ok); get_position replaced by an ARBITRARY result",
      bound="boundary_times.len() == %d (binary search unwound, unwinding assertions on)" % n)
    K[-1]["omit_contracts"] = OM
for n in (1, 2, 3, 4, 6, 8, 16):
    k("search_index_n%d" % n, *TL, ["C01"], "lemma", function="prepare_frame (index part)", clause="binary search by total_cmp on sorted valid positions (repeats allowed) yields hint_ok",
      bound="boundary_times.len() == %d" % n)
    K[-1]["omit_contracts"] = OM
for n in (1, 2, 3, 4, 8, 16, 64):
    k("bsearch_contract_n%d" % n, *TL, ["C01"], "lemma", tier=("thorough" if n == 64 else "quick"), function="slice::binary_search_by (std, as called by prepare_frame)", clause="A7 cross-check: Ok(i) => bt[i]==x in float order; Err(i) => bt[..i] <= x <= bt[i..] (the contract route V assumes), on the real std search",
      bound="boundary_times.len() == %d" % n)
    K[-1]["omit_contracts"] = OM
k("repeat_order", *TL, ["C12"], "contract", function="Repeat::{cmp,partial_cmp,as_ordinal}", clause="total order None<=Times(n)<=Infinite")
K[-1]["omit_contracts"] = OM
for n in range(6):
    for h, cl in (("update_is_ordered_overlay", "update == components applied in order (later wins); unanimated untouched"),
                  ("start_with_reaches_every_component", "start_with reaches each component exactly once; timing untouched"),
                  ("aggregate_timing", "delay=min, duration=max, repeat=max, cycle=common-or-None"),
                  ("clone_is_equivalent", "clone gives identical results and metadata")):
        k("merged%d::%s" % (n, h), *TL, ["C12"] + (["C09"] if h == "clone_is_equivalent" else []) + (["C04", "C05"] if h == "start_with_reaches_every_component" and n <= 3 else []), "contract", function="MergedTimeline::*", clause=cl,
          bound="%d component timelines (loops over the Vec unwound, unwinding assertions on); components arbitrary (abstract TL)" % n)
        K[-1]["omit_contracts"] = OM
k("merged_single_is_transparent", *TL, ["C12"], "contract", function="MergedTimeline::{of,from}, TimelineOrBuilder::build", clause="wrapping one timeline changes nothing")
K[-1]["omit_contracts"] = OM
k("merged_disjoint_commutes", *TL, ["C12"], "contract", function="MergedTimeline::update", clause="disjoint property sets => order irrelevant", bound="2 components")
K[-1]["omit_contracts"] = OM
for n in (0, 1, 2, 3, 4, 5, 7, 8, 9):
    k("builder_args_n%d" % n, *TL, ["C11", "C03", "C17"], "contract", tier=("thorough" if n == 9 else "quick"), timeout=900, function="TimelineBuilderArguments::from",
      clause="keyframes sorted by position, boundary_times[i]==keyframes[i].time, same multiset, timing configuration reaches the TimeScale",
      bound="%d keyframes (sort_by executed, unwinding assertions on); positions/timing fully symbolic" % n)
    K[-1]["omit_contracts"] = OM
k("canary_must_fail", *TL, ["C11", "C12"], "canary")
K[-1]["omit_contracts"] = OM

AN = ("animator::verif_animator", "mina_core", "core/src/verif_animator.rs")
ANF = ["--no-assertion-reach-checks"]
AD = "A4' Duration<->f32 conversions abstracted (monotone function, 0 <-> ZERO)"
for h, props, cl in (
    ("new_establishes_inv", ["C04", "C05"], "construction blends the initial state from the initial values; inv holds"),
    ("set_state_contract", ["C04", "C05", "C08"], "from EVERY state satisfying inv: current_values unchanged; same state => nothing changes; blend/pause/resume transition function; inv preserved"),
    ("advance_contract", ["C05", "C06", "C08"], "time += elapsed; values = current timeline at absolute time on its properties, others kept; inv preserved"),
    ("advance_zero_is_identity", ["C06"], "advance(0) changes nothing"),
    ("is_ended_contract", ["C07"], "is_ended <=> no timeline || time >= duration; never for infinite duration"),
    ("is_ended_is_stable_under_advance", ["C07"], "once ended stays ended under further advances"),
):
    k(h, *AN, props, "contract", function="MappedTimelineAnimator::" + h.split("_")[0], clause=cl, assumes=[AD], timeout=600)
    K[-1]["flags"] = ANF
k("builder_contract", *AN, ["C05", "C04"], "contract", function="StateAnimatorBuilder::{new,from_state,from_values,on,build} + EnumMap MapLike",
  clause="build hands the animator exactly the configured initial state/values (Default otherwise) and a timeline for exactly the states passed to on (latest wins); only the initial state's timeline is blended, from the initial values", assumes=[AD], timeout=600)
K[-1]["flags"] = ANF
k("cover_inv_states", *AN, ["C04", "C05", "C06", "C07"], "cover", timeout=600)
K[-1]["flags"] = ANF
k("canary_must_fail", *AN, ["C04", "C05", "C06", "C07"], "canary", timeout=600)
K[-1]["flags"] = ANF
DUR = ("verif_dur", "mina_core", "core/src/verif_dur.rs")
k("std_from_secs_f32_zero", *DUR, ["C06"], "lemma", function="std Duration::from_secs_f32", clause="from_secs_f32(0) == ZERO (executed, not assumed)")
k("dur_add_monotone", *DUR, ["C06"], "lemma", function="f32 addition (as used by std Duration::as_secs_f32)", clause="A4' piece: for integer seconds s < 2^23 and 0 <= x <= y <= 1: fl(s+x) <= fl(s+y), fl(s+0)==s, fl(s+1)==s+1, s<t => s+1 <= t (all exact in f32)")

BV = ("verif", "bevy_extract", "src/lib.rs")
A6 = "A6 Bevy ECS replaced by shims (one entity, recording event writer, symbolic Time::delta)"
k("animate_step_contract", *BV, ["C18"], "contract", function="bevy animate (per-entity loop body)",
  clause="from EVERY animator state: disabled => nothing; no timeline => None, time frozen; else state monotone, position += delta iff not Ended, Waiting => pos < delay, Ended <=> was Ended || pos >= duration (never under infinite), update iff was Playing at the current position, exactly one event iff the state changed carrying the final state",
  assumes=[A6, "A4' Duration::as_secs_f32 abstracted (monotone)"])
k("ended_from_playing_holds_terminal_values", *BV, ["C18"], "contract", function="bevy animate (per-entity loop body)",
  clause="Ended reached from Playing => the component was evaluated at a position >= duration in that very step (terminal values)", assumes=[A6])
k("ended_implies_terminal_values", *BV, ["C18"], "contract", function="bevy animate (per-entity loop body)",
  clause="from every enabled not-ended pre-state: Ended reported => the component was evaluated at a position >= duration in that step", assumes=[A6])
k("animate_two_frames_lemma", *BV, ["C18"], "lemma", function="bevy animate (per-entity loop body), two consecutive frames",
  clause="at most one Ended event; position >= duration at the start of a frame => that frame reports Ended; Ended is absorbing and frozen; never under infinite duration", assumes=[A6])
k("animator_api_contract", *BV, ["C18"], "contract", function="Animator::{new,default,with_timeline,reset,as_disabled,state}", clause="constructors start enabled at zero in None; reset rewinds and keeps the timeline")
# One harness per (key 0 has a timeline, key 1 has a timeline): together the whole boolean domain.  As ONE harness over
# symbolic has0/has1 the Vec behind the shim HashMap has a symbolic length (4.6 M variables; CaDiCaL 25 s .. >400 s from
# run to run, which timed out on a fresh restore); with the two flags concrete each case is 0.23 M variables, < 30 s.
for _sfx, _what in (("h00", "neither key has a timeline"), ("h01", "only key 1 has a timeline"), ("h10", "only key 0 has a timeline"), ("h11", "both keys have a timeline")):
    k("select_animation_step_contract_" + _sfx, *BV, ["C19"], "contract", function="bevy select_animation (per-entity loop body)",
      clause="[" + _what + "; current key, previous key, animator state/position/presence symbolic] same key => nothing restarts; new key => clone of that key's timeline started from the component's current values, animator reset; key without timeline => timeline None, component untouched", assumes=[A6])
k("chain_animations_step_contract", *BV, ["C19"], "contract", function="bevy chain_animations (per-event loop body)",
  clause="key moves to next[key] iff the event is Ended for this entity and the chain has an entry; else unchanged", assumes=[A6])
k("finding_chain_ignores_which_animator_ended", *BV, ["C19"], "finding", function="bevy chain_animations (per-event loop body)",
  clause="KNOWN FINDING C19-event-has-no-component-type: the chain must not fire for another animator's Ended event")
k("canary_must_fail", *BV, ["C18", "C19"], "canary")

DG = ("", "mina", "tests/verif_derive.rs")
def kd(id, props, kind="contract", clause=None, bound=None):
    k(id, "PLACEHOLDER", "mina", "tests/verif_derive.rs", props, kind, function="derive(Animate) expansion", clause=clause, bound=bound, tests=True, timeout=600)
    K[-1]["harness"] = id
    K[-1]["assumes"] = ["callees prepare_frame / SubTimeline::{value_at, override_start_value, from_keyframes} replaced by scripted recording stubs (their behaviour is proved by the other layers)"]
FAM = "struct family: {x:f32} unattributed; {x:f32, tag:u8, y:f32, z:f32} (same-typed fields); {#[animate] a:f32, b:u8, #[animate] c:i16}; six pub fields f32/f64/u8/i16/i32/u32; remote proxy - bounded over programs"
kd("shape1::update_contract", ["C17", "C08", "C09", "C01"], clause="generated update = prepare_frame(time, boundary_times, timescale) then per animated field assign iff value_at(nt, idx, flag) is Some; prior field content irrelevant", bound=FAM)
kd("shape1::start_with_contract", ["C17", "C09", "C10"], clause="start_with hands each field's value to its own sub-timeline; timescale and boundary times untouched", bound=FAM)
kd("shape1::build_and_accessors_contract", ["C17", "C03"], clause="accessors return the configured delay/cycle/repeat; build wires each field to its own getter and Default; keyframe_from copies the animated fields", bound=FAM)
kd("shape3::update_contract", ["C17", "C08", "C09", "C01"], clause="as shape1; the field excluded from animation is never written; all fields get the same (nt, idx, flag)", bound=FAM)
kd("shape3::start_with_contract", ["C17", "C09", "C10"], clause="every animated field reaches its own sub-timeline", bound=FAM)
kd("shape3::build_contract", ["C17"], clause="keyframe data has exactly the animated fields; per-field getter/default wiring", bound=FAM)
kd("shape6::update_contract", ["C17", "C08", "C09"], clause="six fields of six numeric types, each assigned iff its own value_at is Some", bound=FAM)
kd("shape6::start_with_contract", ["C17", "C09"], clause="six fields reach six sub-timelines", bound=FAM)
kd("pair::update_contract", ["C17", "C08", "C09"], clause="four fields, three of the same type: each assigned from its OWN sub-timeline", bound=FAM)
kd("pair::wiring_contract", ["C17", "C09", "C10"], clause="keyframe_from / setters / build getters / start_with keep same-typed fields apart", bound=FAM)
kd("remote::update_contract", ["C17", "C08"], clause="remote proxy: Target is the remote type; its other fields untouched", bound=FAM)
kd("remote::keyframe_from_contract", ["C17"], clause="keyframe_from reads the remote value", bound=FAM)
kd("canary::canary_must_fail", ["C17", "C09"], kind="canary")

GL = ("glam::verif_glam", "mina_core", "core/src/verif_glam.rs")
for n in ("vec2", "dvec2", "ivec2", "uvec2", "i64vec2", "u64vec2", "vec3", "dvec3", "ivec3", "uvec3", "i64vec3", "u64vec3", "dvec4", "ivec4", "uvec4", "i64vec4", "u64vec4"):
    k("%s_componentwise" % n, *GL, ["C14"], "contract", function="<glam::%s as Lerp>::lerp" % n, solver="cvc5",
      clause="every component of the result is the scalar lerp of the corresponding components (bit-for-bit), all x in [0,1]")
    K[-1]["features"] = "glam"

for _h in open(os.path.join(VERIF, "contracts/kani/mina/family_harnesses.txt")).read().split():
    k(_h, "PLACEHOLDER", "mina", "tests/verif_derive_family.rs", ["C17", "C08", "C09"], "contract", tier="thorough", function="derive(Animate) expansion",
      clause="generated family shape: update = prepare_frame + assign-iff-Some per animated field, untouched otherwise; build/start_with wiring; accessors",
      bound="struct family generated by tools/gen_shapes.py: all 8 #[animate] subsets of a 3-field struct + 12 pseudo-random shapes (1..6 fields)", tests=True, timeout=600)
    K[-1]["harness"] = _h
    K[-1]["id"] = "family::" + _h

SENT = "bounded over sentences: a fixed family of macro sentences covering every grammar production (see contracts/kani/mina/verif_macros.rs); values inside the sentences are literals"
def km(id, props, clause, tier="quick", kind="contract"):
    k(id, "PLACEHOLDER", "mina", "tests/verif_macros.rs", props, kind, tier=tier, function="timeline!/animator! expansion vs builder API", clause=clause, bound=SENT, tests=True, timeout=900)
    K[-1]["harness"] = id
    K[-1]["flags"] = ["--no-assertion-reach-checks"]
    K[-1]["assumes"] = ["SubTimeline::from_keyframes replaced by a capturing stub (records every keyframe's position, per-field value or absence, easing, the default value and default easing); override_start_value by a recording stub"]
km("timeline_basic_seconds_from_to", ["C15"], "`Ns` is the cycle duration in seconds, from = 0%, to = 100%")
km("timeline_all_arguments", ["C15"], "ms suffix, after = delay, Nx = Times(N), reverse, easing path, N% = N/100, sparse field subsets")
km("timeline_arguments_in_any_order", ["C15"], "arguments may come in any order; optional `for`")
km("timeline_for_float_infinite_percent", ["C15"], "`for`, float literal, infinite, a lone N% keyframe")
km("timeline_underscored_literals", ["C15"], "underscored integer literal, Nx with N=1, 100%")
km("timeline_defaults_when_omitted", ["C15"], "omitted arguments leave the builder defaults (1 s, no delay, no repeat)")
km("timeline_merged_list", ["C15", "C16"], "a bracketed list yields a MergedTimeline of its members in order")
km("animator_inline_defaults_and_arms", ["C16"], "default(state, {fields}) = initial state + values (unlisted fields Default); one arm per state; unmentioned states have no timeline")
km("animator_expression_default_and_no_default", ["C16"], "default(state, expr) uses the expression; default(state) and no default clause mean Default values / default state")
km("animator_default_keyframe_and_multi_state_arm", ["C16"], "`default` as a keyframe body stands for the initial values; `A | B =>` installs the same timeline for each state", tier="thorough")
km("animator_merged_arm", ["C16"], "a bracketed arm installs a merged timeline", tier="thorough")
km("animator_three_state_arm_out_of_order", ["C16"], "`A | B | C =>` with the states in another order than the enum's; `default` as the body of an N% keyframe; partially listed default values", tier="thorough")
km("animator_state_in_two_arms_later_arm_wins", ["C16"], "arms are `.on` calls in the order written: a state named again in a later arm gets the later arm's timeline", tier="thorough")
km("animator_multi_state_merged_arm", ["C16"], "a bracketed list under `A | B` installs the merged timeline for each listed state; `default` inside a list member", tier="thorough")
km("canary_must_fail", ["C15", "C16"], None, kind="canary")
