"""Route V driver: assemble the Verus file from /repo, run verus, map results to obligations."""
import json
import os
import re
import subprocess
import tempfile
import time

import vlib
import extract_verus
from vlib import Undecided, log

LOGICAL = ("postcondition not satisfied", "invariant not satisfied", "assertion failed", "precondition not satisfied",
           "possible arithmetic underflow/overflow", "possible division by zero", "decreases not satisfied",
           "index out of bounds", "unreachable", "loop invariant")


def verus_env():
    env = dict(os.environ)
    return env


def run_verus(path, extra=None, timeout=900):
    cmd = ["verus", path, "--output-json", "--time", "--multiple-errors", "20"] + (extra or [])
    t0 = time.time()
    try:
        p = subprocess.run(cmd, cwd=os.path.dirname(path), env=verus_env(), stdout=subprocess.PIPE, stderr=subprocess.PIPE, text=True, timeout=timeout)
    except subprocess.TimeoutExpired:
        raise Undecided("verus timed out after %ds" % timeout)
    dt = time.time() - t0
    try:
        data = json.loads(p.stdout)
    except Exception:
        raise Undecided("verus produced no JSON (rc=%d): %s" % (p.returncode, (p.stderr or p.stdout)[-1500:]))
    return data, p.stderr, dt, " ".join(cmd)


def parse_errors(stderr, text):
    """-> list of {msg, line, clause} from rustc-style diagnostics."""
    lines = text.split("\n")
    errs = []
    cur = None
    for l in stderr.split("\n"):
        m = re.match(r"^(error|warning)(\[\w+\])?: (.*)$", l)
        if m:
            if cur:
                errs.append(cur)
            cur = {"level": m.group(1), "msg": m.group(3), "line": None, "clause": None} if m.group(1) == "error" else None
            continue
        if cur is not None and cur["line"] is None:
            m = re.match(r"^\s*--> [^:]+:(\d+):(\d+)", l)
            if m:
                cur["line"] = int(m.group(1))
                if 0 < cur["line"] <= len(lines):
                    cur["clause"] = lines[cur["line"] - 1].strip()[:200]
    if cur:
        errs.append(cur)
    return [e for e in errs if not e["msg"].startswith("aborting due to")]


def fn_ranges(text):
    """(start_line, name) for every fn item in the assembled file (items are not nested, so an error
    belongs to the nearest preceding fn header)."""
    out = []
    for m in re.finditer(r"^[ \t]*(?:pub(?:\([^)]*\))?\s+)?(?:closed |open |uninterp |broadcast )*(?:spec |proof |exec )?fn\s+(\w+)", text, re.M):
        out.append((vlib.line_of(text, m.start()), m.group(1)))
    return out


def warm():
    d = tempfile.mkdtemp(prefix="mina-verif-v.", dir=os.environ.get("TMPDIR", "/tmp"))
    try:
        text, rep = extract_verus.assemble()
        p = os.path.join(d, "mina_subtimeline.rs")
        open(p, "w").write(text)
        run_verus(p)
    finally:
        vlib.remove_scratch(d)


def run(pid, tier, sel):
    """sel: registry entries {id, function (as named in the assembled file), props, kind, clause}.
    Returns {records, functions, trusted, assumptions, ...}."""
    d = tempfile.mkdtemp(prefix="mina-verif-v.", dir=os.environ.get("TMPDIR", "/tmp"))
    try:
        cannot_apply = None
        try:
            text, rep = extract_verus.assemble()
        except Undecided as e:
            # an anchor of the extraction is gone (the function was restructured): same fallback as a type error
            cannot_apply = str(e)
            text, rep = "", {"functions": [], "edits_applied": [], "dropped": [], "edits_catalogue": {}, "assumption_scan": {}}
        path = os.path.join(d, "mina_subtimeline.rs")
        if cannot_apply is None:
            open(path, "w").write(text)
            data, stderr, dt, cmd = run_verus(path)
        else:
            data, stderr, dt, cmd = {"verification-results": {"encountered-vir-error": True}}, cannot_apply, 0.0, "verus (not run: %s)" % cannot_apply[:120]
        res = data.get("verification-results", {})

        def unprocessable(r):
            return r.get("encountered-vir-error") or (r.get("encountered-error") and r.get("verified", 0) == 0 and r.get("errors", 0) == 0)

        if cannot_apply is None and unprocessable(res):
            # MergedTimeline::update and prepare_frame are independent of the SubTimeline functions (and of each other): if the
            # file cannot be processed with them, try without, so that a restructuring of one leaves only its own unit undecided
            for kw in ({"skip_merged": True}, {"skip_prepare": True}, {"skip_merged": True, "skip_prepare": True}):
                text2, rep2 = extract_verus.assemble(**kw)
                open(path, "w").write(text2)
                data2, stderr2, dt2, cmd2 = run_verus(path)
                dt += dt2
                if not unprocessable(data2.get("verification-results", {})):
                    rep2["skipped"] = rep2.get("skipped", []) + ["Verus could not process the file with %s: %s" % (" and ".join(k[5:] for k in kw), stderr[-800:])]
                    text, rep, data, stderr, cmd = text2, rep2, data2, stderr2, cmd2
                    res = data.get("verification-results", {})
                    break
        if res.get("encountered-vir-error") or (res.get("encountered-error") and res.get("verified", 0) == 0 and res.get("errors", 0) == 0):
            # The extracted text no longer type-checks under the contracts (the functions were restructured).
            # Route V cannot decide; the bounded native search on the real code stands in: a disagreement with
            # the specification twin is a violation with a concrete input, agreement leaves the check undecided.
            status, txt = native_small_scope()
            if status == "disagree":
                records = []
                payload = {"property": pid, "obligation": "native_small_scope_search", "kind": "native_small_scope",
                           "verifier": "verus could not type-check the extracted functions against their contracts; bounded native search on the real SubTimeline (N<=4 keyframes, 5-point grid) found a disagreement with the specification",
                           "native_output": txt, "native_confirmed": True, "verus_output": stderr[-3000:]}
                rf = vlib.write_replay(pid, "native_small_scope_search", payload)
                rec = {"engine": "verus+native", "id": "native_small_scope_search", "kind": "bounded", "function": "SubTimeline::{from_keyframes,value_at}",
                       "clause": "real SubTimeline == specification twin on every keyframe list with N<=4 over the 5-point grid", "solver": "native", "bounded": "N<=4 keyframes, positions on {0,1/4,1/2,3/4,1}",
                       "checks": 1, "checks_ok": 0, "solver_s": 0.0, "verdict": "fail", "detail": txt[-600:], "failed_checks": ["native_small_scope_search::disagreement"],
                       "native_confirmed": True, "replay_file": rf, "assumes": []}
                records.append(rec)
                return {"records": records, "functions": rep["functions"], "file_sha": vlib.sha(text), "extraction": {"edits_applied": rep["edits_applied"], "dropped": rep["dropped"], "edits_catalogue": rep["edits_catalogue"]},
                        "assumption_scan": rep["assumption_scan"], "verus_cmd": cmd.replace(d, "<scratch>"), "verified": 0, "errors": None, "time_s": round(dt, 2), "trusted": [], "assumptions": []}
            raise Undecided("verus could not process the extracted text (unsupported construct / type error); the bounded native search on the real code %s:\n%s"
                            % ("agrees with the specification (N<=4)" if status == "agree" else "could not run", stderr[-2500:]))
        errs = parse_errors(stderr, text)
        ranges = fn_ranges(text)
        per_fn = {}
        for mt in data.get("times-ms", {}).get("smt", {}).get("smt-run-module-times", []):
            for fb in mt.get("function-breakdown", []):
                nm = fb["function"].split("::", 1)[1] if "::" in fb["function"] else fb["function"]
                per_fn[nm] = fb

        def errors_of(fname):
            short = fname.split("::")[-1]
            out = []
            for e in errs:
                if e["line"] is None:
                    continue
                cands = [r for r in ranges if r[0] <= e["line"]]
                if cands and max(cands, key=lambda r: r[0])[1] == short:
                    out.append(e)
            return out

        records = []
        native_cache = {}
        for v in sel:
            fb = per_fn.get(v["function"])
            es = errors_of(v["function"])
            rec = {"engine": "verus", "id": v["id"], "kind": v.get("kind", "contract"), "function": v["function"], "clause": v.get("clause"),
                   "solver": "z3", "bounded": None, "checks": 1, "checks_ok": 0, "solver_s": (fb or {}).get("time-micros", 0) / 1e6,
                   "rlimit": (fb or {}).get("rlimit"), "assumes": v.get("assumes", [])}
            if fb is None:
                rec.update(verdict="undecided", detail="function not found in verus results (anchor lost?) " + "; ".join(rep.get("skipped", []))[:600])
            elif fb.get("success") and not es:
                rec.update(verdict="pass", detail="", checks_ok=1)
            else:
                logical = [e for e in es if any(k in e["msg"] for k in LOGICAL)]
                other = [e for e in es if e not in logical]
                if logical:
                    rec.update(verdict="fail", detail="; ".join("%s @ %s" % (e["msg"], e["clause"]) for e in logical[:4]))
                    rec["failed_checks"] = ["%s::%s [%s]" % (v["id"], e["msg"], e["clause"]) for e in logical]
                    payload = {"property": pid, "obligation": v["id"], "function_under_contract": v["function"],
                               "failed_checks": rec["failed_checks"], "verifier": "verus (no counterexample available)",
                               "verifier_output": stderr[-6000:], "native_confirmed": False,
                               "note": "no-failing-input-found: this obligation verifies on the pinned tree and now fails with a logical error"}
                    rec["native_confirmed"] = False
                    if v["function"].startswith("SubTimeline::") or v["function"].startswith("SplitKeyframe::"):
                        if "status" not in native_cache:
                            native_cache["status"], native_cache["txt"] = native_small_scope()
                        if native_cache["status"] == "disagree":
                            payload["kind"] = "native_small_scope"
                            payload["native_output"] = native_cache["txt"]
                            payload["native_confirmed"] = True
                            payload["note"] = "failing input found by the bounded native search on the real SubTimeline (see native_output)"
                            rec["native_confirmed"] = True
                    rec["replay_file"] = vlib.write_replay(pid, v["id"], payload)
                else:
                    rec.update(verdict="undecided", detail="verus did not decide: " + "; ".join(e["msg"] for e in other[:3]) or "rlimit/timeout")
            records.append(rec)
        if tier == "thorough" and any(v["function"].startswith("SubTimeline::") for v in sel):
            # bounded cross-check of the specification twin against the real code (never counted as proved)
            st, txt = native_cache.get("status"), native_cache.get("txt")
            if st is None:
                st, txt = native_small_scope()
            m = re.search(r"small-scope search: (\d+) keyframe lists, (\d+) lookups", txt or "")
            rec = {"engine": "native", "id": "native_small_scope_search", "kind": "bounded", "function": "SubTimeline::{from_keyframes,value_at,override_start_value}",
                   "clause": "real SubTimeline == specification twin (frames, map, value_at incl. start override) on every keyframe list in scope",
                   "solver": "native execution", "bounded": "N<=4 keyframes over positions {0,1/4,1/2,3/4,1}, every defining subset and easing pattern, t on a 1/16 grid incl. outside [0,1]",
                   "checks": int(m.group(1)) if m else 1, "checks_ok": 0, "solver_s": 0.0, "assumes": []}
            if st == "agree":
                rec.update(verdict="pass", detail=(m.group(0) if m else ""), checks_ok=rec["checks"])
            elif st == "disagree":
                payload = {"property": pid, "obligation": "native_small_scope_search", "kind": "native_small_scope", "native_output": txt, "native_confirmed": True}
                rec.update(verdict="fail", detail=txt[-600:], failed_checks=["native_small_scope_search::disagreement"], native_confirmed=True,
                           replay_file=vlib.write_replay(pid, "native_small_scope_search", payload))
            else:
                rec.update(verdict="undecided", detail="native search could not run: " + (txt or "")[-300:])
            records.append(rec)
        funcs = [f for f in rep["functions"]]
        return {
            "records": records, "functions": funcs, "file_sha": vlib.sha(text), "extraction": {"edits_applied": rep["edits_applied"], "dropped": rep["dropped"], "edits_catalogue": rep["edits_catalogue"]},
            "assumption_scan": rep["assumption_scan"], "verus_cmd": cmd.replace(d, "<scratch>"), "verified": res.get("verified"), "errors": res.get("errors"), "time_s": round(dt, 2),
            "trusted": ["Verus 0.2026.09.13 / Z3", "A2 f32 order axioms (external_body proof fns; cross-checked by Kani)", "A3 Easing::clone == identity (external_body)"],
            "assumptions": ["A2: f32 comparisons are functions of their operands and order valid positions (axioms in contracts/verus/prelude.rs)",
                            "A3: Easing is opaque, clone returns an equal value",
                            "V-R1: from_keyframes takes &Vec<Keyframe<Data>> instead of impl IntoIterator (the derive macro's only call shape)",
                            "the value function passed to from_keyframes is pure (callable everywhere, functional)"]
                           + (["A7 (V-R8): slice::binary_search_by(|t| t.total_cmp(&x)) on sorted valid positions meets std's documented contract (Ok(i): element i equals x; Err(i): elements before i <= x <= elements from i); external_body, executed (not assumed) by the bounded Kani harnesses prepare_frame_n*/search_index_n*",
                               "A7: TimeScale::get_position returns a valid position (route K's proved contract, C03); TimeScale is opaque in route V"] if any(v["function"] == "prepare_frame" for v in sel) else [])
                           + (["V-R7: a merged timeline's component is any implementation of Timeline::update (Verus-side trait declaration)"] if any(v["function"].startswith("MergedTimeline") for v in sel) else []),
        }
    finally:
        vlib.remove_scratch(d)


NATIVE_TARGET = os.path.join(vlib.CACHE, "native-target")


def native_small_scope():
    """Run the small-scope native search (contracts/native/verif_native_search.rs) on the real
    SubTimeline in a scratch copy of /repo. -> (status, text): 'agree' | 'disagree' | 'error'."""
    d, r = vlib.make_scratch("n")
    try:
        import shutil
        p = os.path.join(r, "core/src/timeline_helpers.rs")
        if not os.path.exists(p):
            return "error", "core/src/timeline_helpers.rs missing"
        base = open(p).read()
        env = dict(os.environ)
        env["CARGO_NET_OFFLINE"] = "true"
        env["CARGO_TARGET_DIR"] = NATIVE_TARGET
        cmd = ["cargo", "test", "--offline", "--release", "-p", "mina_core", "--lib", "verif_native", "--", "--nocapture"]
        out = ""
        notes = ""
        for with_structure in (True, False):
            shutil.copyfile(os.path.join(vlib.VERIF, "contracts/native/verif_native_search.rs"), os.path.join(r, "core/src/verif_native_search.rs"))
            decl = "\n#[cfg(test)]\n#[path = \"verif_native_search.rs\"]\nmod verif_native_search;\n"
            if with_structure:
                shutil.copyfile(os.path.join(vlib.VERIF, "contracts/native/verif_native_structure.rs"), os.path.join(r, "core/src/verif_native_structure.rs"))
                decl += "#[cfg(test)]\n#[path = \"verif_native_structure.rs\"]\nmod verif_native_structure;\n"
            open(p, "w").write(base + decl)
            try:
                pr = subprocess.run(cmd, cwd=r, env=env, stdout=subprocess.PIPE, stderr=subprocess.STDOUT, text=True, timeout=1800)
            except subprocess.TimeoutExpired:
                return "error", "native search timed out"
            out = pr.stdout
            if re.search(r"^test \S*small_scope_search \.\.\. (ok|FAILED)", out, re.M):
                break
            if with_structure:
                notes = "(the private-structure half did not compile against this tree: public-API half only)\n"
        m = re.search(r"^test \S*small_scope_search \.\.\. (ok|FAILED)", out, re.M)
        m2 = re.search(r"^test \S*structure_matches_spec \.\.\. (ok|FAILED)", out, re.M)
        i = out.find("running ")
        tail = notes + (out[i:] if i >= 0 else out[-3000:])
        if not m:
            return "error", tail[-3000:]
        if m2 and m2.group(1) == "FAILED":
            return "disagree", tail[:6000]
        return ("agree" if m.group(1) == "ok" else "disagree"), tail[:6000]
    finally:
        vlib.remove_scratch(d)


def _native_cargo_test(src_name, dst_rel, cargo_args, test_name, append_mod_to=None, what="native search"):
    """Copy contracts/native/<src_name> into a scratch copy of /repo at <dst_rel>, optionally declare it as a
    #[cfg(test)] child module at the end of <append_mod_to>, run `cargo test <cargo_args> -- --nocapture` and
    classify the line `test ...<test_name> ... ok|FAILED`.  -> (status, text): 'agree' | 'disagree' | 'error'."""
    d, r = vlib.make_scratch("n")
    try:
        import shutil
        dst = os.path.join(r, dst_rel)
        os.makedirs(os.path.dirname(dst), exist_ok=True)
        shutil.copyfile(os.path.join(vlib.VERIF, "contracts/native", src_name), dst)
        if append_mod_to:
            host = os.path.join(r, append_mod_to)
            if not os.path.exists(host):
                return "error", "%s missing" % append_mod_to
            mod = os.path.basename(dst_rel)[:-3]
            open(host, "a").write("\n#[cfg(test)]\n#[path = \"%s\"]\nmod %s;\n" % (os.path.basename(dst_rel), mod))
        env = dict(os.environ)
        env["CARGO_NET_OFFLINE"] = "true"
        env["CARGO_TARGET_DIR"] = NATIVE_TARGET
        env["RUST_BACKTRACE"] = "0"
        cmd = ["cargo", "test", "--offline"] + cargo_args + ["--", "--nocapture"]
        try:
            pr = subprocess.run(cmd, cwd=r, env=env, stdout=subprocess.PIPE, stderr=subprocess.STDOUT, text=True, timeout=1800)
        except subprocess.TimeoutExpired:
            return "error", "%s timed out" % what
        out = pr.stdout
        m = re.search(r"^test \S*" + re.escape(test_name) + r" \.\.\. (ok|FAILED)", out, re.M)
        i = out.find("running ")
        tail = out[i:] if i >= 0 else out[-3000:]
        if not m:
            return "error", tail[-3000:]
        return ("agree" if m.group(1) == "ok" else "disagree"), tail[:6000]
    finally:
        vlib.remove_scratch(d)


def native_derive_search():
    return _native_cargo_test("verif_derive_native.rs", "tests/verif_derive_native.rs", ["-p", "mina", "--test", "verif_derive_native"], "derive_small_scope_search")


def native_builder_search():
    return _native_cargo_test("verif_native_builder.rs", "core/src/verif_native_builder.rs", ["--release", "-p", "mina_core", "--lib", "builder_order_search"],
                              "builder_order_search", append_mod_to="core/src/timeline.rs")


def native_builder_stable_search():
    return _native_cargo_test("verif_native_builder.rs", "core/src/verif_native_builder.rs", ["--release", "-p", "mina_core", "--lib", "builder_stable_search"],
                              "builder_stable_search", append_mod_to="core/src/timeline.rs")


def native_merged_search():
    return _native_cargo_test("verif_native_merged.rs", "core/tests/verif_native_merged.rs", ["--release", "-p", "mina_core", "--test", "verif_native_merged"], "merged_small_scope_search")


def native_prepare_search():
    return _native_cargo_test("verif_native_prepare.rs", "core/tests/verif_native_prepare.rs", ["--release", "-p", "mina_core", "--test", "verif_native_prepare"], "prepare_frame_search")


def native_easing_search():
    return _native_cargo_test("verif_native_easing.rs", "core/tests/verif_native_easing.rs", ["--release", "-p", "mina_core", "--test", "verif_native_easing"], "easing_exhaustive",
                              what="exhaustive easing enumeration")


def native_bevy_frames_search():
    """Multi-frame native simulation of the extracted Bevy `animate` loop body with real mina timelines
    (contracts/native/verif_native_bevy.rs appended to the extracted crate; `mina` as a path dev-dependency)."""
    d, r = vlib.make_scratch("n")
    try:
        import extract_bevy
        try:
            crate, rep = extract_bevy.write_crate(d, r)
        except Undecided as e:
            return "error", "bevy extraction: %s" % e
        lib = os.path.join(crate, "src/lib.rs")
        open(lib, "a").write("\n" + open(os.path.join(vlib.VERIF, "contracts/native/verif_native_bevy.rs")).read())
        open(os.path.join(crate, "Cargo.toml"), "a").write('\n[dev-dependencies]\nmina = { path = "%s" }\n' % r)
        lock = os.path.join(r, "Cargo.lock")
        if os.path.exists(lock):
            import shutil
            shutil.copyfile(lock, os.path.join(crate, "Cargo.lock"))
        env = dict(os.environ)
        env["CARGO_NET_OFFLINE"] = "true"
        env["CARGO_TARGET_DIR"] = NATIVE_TARGET + "-bevy"
        env["RUST_BACKTRACE"] = "0"
        cmd = ["cargo", "test", "--offline", "--release", "--lib", "bevy_frames_search", "--", "--nocapture"]
        try:
            pr = subprocess.run(cmd, cwd=crate, env=env, stdout=subprocess.PIPE, stderr=subprocess.STDOUT, text=True, timeout=1800)
        except subprocess.TimeoutExpired:
            return "error", "native bevy frames search timed out"
        out = pr.stdout
        m = re.search(r"^test \S*bevy_frames_search \.\.\. (ok|FAILED)", out, re.M)
        i = out.find("running ")
        tail = out[i:] if i >= 0 else out[-3000:]
        if not m:
            return "error", tail[-3000:]
        return ("agree" if m.group(1) == "ok" else "disagree"), tail[:6000]
    finally:
        vlib.remove_scratch(d)


def native_dur_search():
    return _native_cargo_test("verif_native_dur.rs", "core/tests/verif_native_dur.rs", ["--release", "-p", "mina_core", "--test", "verif_native_dur"], "dur_search")


NATIVE_SEARCHES = {
    "native_bevy_frames_search": {"run": native_bevy_frames_search, "function": "bevy animate (extracted per-entity loop body), over many frames, real mina timelines, real Duration arithmetic",
                                  "clause": "per frame: state only forward; position += delta iff not Ended; Waiting => before the delay; position >= duration => Ended (and not before; never for infinite); one event per state change carrying the final state; Playing => component == timeline at the previous position; Ended => terminal values; disabled => nothing changes; at most one Ended event per run",
                                  "bounded": "3 delays x 4 cycle lengths x 4 repeats x reverse; 50 frame schedules (constant, with zero-length frames, pseudo-random over {0,1e-6,1/60,0.1,0.35,7}), with and without a 3-frame disable window; <= 4000 frames per run",
                                  "count_re": r"bevy frames search: (\d+) runs"},
    "native_easing_exhaustive": {"run": native_easing_search, "function": "Easing::calc (26 non-Back built-ins; 18 mirror pairs)",
                                 "clause": "for EVERY f32 x in [0,1]: 0 <= calc(x) <= 1; calc(x) >= max over smaller inputs - 4eps (non-decreasing to float rounding, all pairs); a(x) + b(1-x) == 1 within 4eps for In/Out pairs and InOut curves; Linear identity; endpoints exact",
                                 "bounded": "none in the input: all 1 065 353 217 f32 values in [0,1] are evaluated per curve (complete by enumeration; native execution, not deduction); tolerance 4*f32::EPSILON",
                                 "count_re": r"easing exhaustive search: (\d+) inputs per curve"},
    "native_dur_search": {"run": native_dur_search, "function": "std Duration::as_secs_f32 (assumption A4')",
                          "clause": "n as f32 / 1e9 is monotone in [0,1] for ALL 10^9 nanosecond counts (exhaustive); as_secs_f32(s,n) == s as f32 + n as f32/1e9 and monotone over neighbouring samples",
                          "bounded": "nanoseconds: exhaustive; (secs, nanos): every s < 2^23 with 6 nanosecond values each (sampled)",
                          "count_re": r"(\d+) \(secs, nanos\) samples"},
    "native_prepare_search": {"run": native_prepare_search, "function": "prepare_frame",
                              "clause": "position == get_position's (0 when not started), index brackets it (hint_ok), flag == not started || first forward pass; None iff no keyframes",
                              "bounded": "1..40 master keyframes on a 1/64 grid (sorted, repeats allowed), 401 lists per size, 6 timing configurations, t on a 1/8 grid in [-1,12]",
                              "count_re": r"prepare_frame search: (\d+) keyframe lists"},
    "native_merged_search": {"run": native_merged_search, "function": "MergedTimeline::{update,start_with,delay,duration,repeat,cycle_duration,clone,from}",
                             "clause": "merged update == components applied in order (standalone clones), start_with reaches every component, delay=min, duration=max, repeat=max, cycle=common-or-None, single wrap transparent",
                             "bounded": "0..12 components: n=1 every point of a 5120-point grid, n=2 a 1/77 subgrid, n=3..12 3000 pseudo-random lists each (fixed seed); order-sensitive component updates; 5 times; with/without start_with",
                             "count_re": r"merged small-scope search: (\d+) component lists"},
    "native_builder_stable_search": {"run": native_builder_stable_search, "function": "TimelineBuilderArguments::from",
                                     "clause": "keyframes sharing a position keep the order they were added in (C01/C17: repeated positions are in scope and 'consecutive keyframes' needs that order; NOT demanded for C11)",
                                     "bounded": "2..96 keyframes on a 1/8 position grid (many repeats), 300 pseudo-random insertion orders per size",
                                     "count_re": r"builder stable-order search: (\d+) insertion orders"},
    "native_builder_search": {"run": native_builder_search, "function": "TimelineBuilderArguments::from",
                              "clause": "real builder arguments == sorted keyframes / matching boundary_times / same multiset, for every insertion order in scope",
                              "bounded": "every insertion order of n<=8 keyframes (distinct positions, and one repeated position for n<=7); n in {9,10,12,16}: rotations, reversals, 20000 pseudo-random permutations each",
                              "count_re": r"builder order search: (\d+) insertion orders"},
    "native_derive_search": {"run": native_derive_search, "function": "derive(Animate) expansion: update / start_with / accessors",
                             "clause": "generated update == per animated field assign iff the field's own sub-timeline has a value at prepare_frame's frame, all else untouched (real callees, no stubs)",
                             "bounded": "struct with 3 animated fields + 1 excluded; n<=3 keyframes at distinct positions of {0,1/2,1} in every insertion order, every subset of fields per keyframe, 6 timing configurations, with/without start_with, t on a 1/4 grid in [-0.5,7]",
                             "count_re": r"derive small-scope search: (\d+) timelines"},
}


def native_record(pid, name, cache):
    """Run (once per process) a native small-scope search and turn it into an evidence record (kind bounded)."""
    spec = NATIVE_SEARCHES[name]
    if name not in cache:
        cache[name] = spec["run"]()
    st, txt = cache[name]
    m = re.search(spec["count_re"], txt or "")
    rec = {"engine": "native", "id": name, "kind": "bounded", "function": spec["function"], "clause": spec["clause"], "solver": "native execution",
           "bounded": spec["bounded"], "checks": int(m.group(1)) if m else 1, "checks_ok": 0, "solver_s": 0.0, "assumes": []}
    if st == "agree":
        rec.update(verdict="pass", detail=(m.group(0) if m else ""), checks_ok=rec["checks"])
    elif st == "disagree":
        payload = {"property": pid, "obligation": name, "kind": name, "native_output": txt, "native_confirmed": True,
                   "how_to_replay": "./check %s --replay <this file>" % pid}
        rec.update(verdict="fail", detail=txt[-700:], failed_checks=[name + "::disagreement"], native_confirmed=True,
                   replay_file=vlib.write_replay(pid, name, payload))
    else:
        rec.update(verdict="undecided", detail="native search could not run: " + (txt or "")[-400:])
    return rec

