#!/bin/bash
# usage: seed_eval.sh <PROP> <demo-relative-dest> [extra props...]
# (dev helper) 1. confirms the seeded change in a fresh worktree: demo passes without, existing suite passes with, demo fails with;
#              2. applies it to /repo, runs ./check for the property (and extras), undoes it.
set -u
P=$1; DEST=$2; shift 2
OUT=/tmp/mut/out/$P
W=/tmp/seedchk-$P
cd /repo && git diff --quiet || { echo "repo dirty"; exit 9; }
rm -rf $W; git -C /repo worktree add -q --detach $W HEAD
DEMO=$(ls $OUT/demo_*.rs | head -1)
mkdir -p $(dirname $W/$DEST); cp $DEMO $W/$DEST
pkgflag="-p mina"; case "$DEST" in core/*) pkgflag="-p mina_core";; bevy/*) pkgflag="-p bevy_mina";; esac
tname=$(basename $DEST .rs)
cd $W
a=$(cargo test -q --offline $pkgflag --test $tname 2>&1 | grep -E "^test result" | tail -1)
echo "[confirm] demo WITHOUT change: $a"
git apply $OUT/patch.diff || { echo "patch does not apply"; exit 8; }
mv $W/$DEST /tmp/seed_demo_$P.rs
b=$(cargo test --workspace --no-fail-fast --offline 2>&1 | grep -E "^test result" | awk '{p+=$4; f+=$6} END {print "passed="p" failed="f}')
echo "[confirm] existing suite WITH change: $b"
cp /tmp/seed_demo_$P.rs $W/$DEST
c=$(cargo test -q --offline $pkgflag --test $tname 2>&1 | grep -E "^test result" | tail -1)
echo "[confirm] demo WITH change: $c"
cd /repo; git worktree remove --force $W
git -C /repo apply $OUT/patch.diff
cd /verif
for q in $P "$@"; do
  s=$(date +%s); r=$(./check $q 2>&1 | grep -E "^VIOLATION|^OK|^KNOWN|UNDECIDED|VACUITY" | cut -c1-260 | head -6); rc=$?; e=$(date +%s)
  echo "[check $q] $((e-s))s: $r"
done
git -C /repo checkout -- . ; git -C /repo status --short
