#!/usr/bin/env python3
"""Generates MANIFEST.json from the table below (kept in one place so it stays valid)."""
import json, os
VERIF = os.path.dirname(os.path.dirname(os.path.abspath(__file__)))
props = [json.loads(l) for l in open(os.path.join(VERIF, "properties.jsonl"))]

CLAIMS = {}
def claim(pid, technique, text, note, design_ref, category="proof"):
    CLAIMS[pid] = dict(technique=technique, text=text, note=note, design_ref=design_ref, category=category)

NA = {}

exec(open(os.path.join(VERIF, "tools", "manifest_claims.py")).read())
for _p in ("C11", "C12", "C15", "C16", "C17"):
    if _p in CLAIMS:
        CLAIMS[_p]["category"] = "other"

checks = []
for p in props:
    pid = p["id"]
    if pid in CLAIMS:
        c = CLAIMS[pid]
        checks.append({
            "property_id": pid,
            "quick_cmd": "./check %s --tier quick" % pid,
            "thorough_cmd": "./check %s --tier thorough" % pid,
            "evidence_file": "/verif/evidence/%s.json" % pid,
            "replay_cmd_template": "./check %s --replay {path}" % pid,
            "engine": "contracts",
            "level_claimed": {"category": c.get("category", "proof"), "text": c["text"], "design_ref": c["design_ref"]},
            "level_note": c["note"],
            "technique": c["technique"],
        })
na = []
for p in props:
    pid = p["id"]
    if pid not in CLAIMS:
        na.append({"property_id": pid, "reason": NA.get(pid, "check not built yet in this session (framework under construction); see DESIGN.md section 5 for the plan")})
m = {
 "version": 1,
 "setup_cmd": "./check --setup",
 "hooks": {"guard": "kani", "enable": "none needed: checks copy /repo's working tree to a scratch directory and inject #[cfg_attr(kani, ...)] contracts and #[cfg(kani)] harness modules there; /repo itself is built unmodified (cfg(kani) is set by cargo-kani only)",
           "baseline_off_cmd": "cd /repo && cargo test --workspace --no-fail-fast --offline", "source_commits": [], "add_only": True},
 "engines": [
  {"name": "route-K", "path": "tools/vlib.py, tools/engine.py, contracts/kani/", "serves_properties": sorted(CLAIMS), "kind_free_text": "Kani 0.68 function contracts + proof harnesses injected into a scratch copy of the real crate; CBMC 6.11 with cvc5/CaDiCaL; counterexamples replayed natively (cargo kani playback)"},
  {"name": "route-V", "path": "tools/extract_verus.py, tools/verus_engine.py, contracts/verus/", "serves_properties": [p for p in ("C01", "C08", "C10", "C20") if p in CLAIMS], "kind_free_text": "Verus 0.2026.09.13 on functions extracted byte-for-byte from core/src/timeline_helpers.rs each run"},
 ],
 "checks": checks,
 "not_applicable": na,
 "notes": "Exit codes: 0 all obligations discharged; 1 VIOLATION; 2 undecided (lost anchor, solver timeout, tool error) - never reported as a violation. Fix commits in /repo: see known_findings.json.",
}
json.dump(m, open(os.path.join(VERIF, "MANIFEST.json"), "w"), indent=1)
print("manifest: %d checks, %d not_applicable" % (len(checks), len(na)))
