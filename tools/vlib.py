#!/usr/bin/env python3
"""Shared machinery for the contract-based checks of focustense/mina (see DESIGN.md).

Route K: copy /repo to a scratch directory, inject Kani contracts/harness modules
(contracts/kani/inject.json), run `cargo kani`, parse the JSON export, replay counterexamples
natively with `cargo kani playback` (the real code, real `%`, real libm).

Route V: extract functions from /repo byte-for-byte into one Verus file (tools/extract_verus.py)
and run `verus`.

Exit codes of a check: 0 all obligations discharged, 1 VIOLATION, 2 undecided.
"""
import hashlib
import json
import os
import re
import shutil
import subprocess
import sys
import tempfile
import time

VERIF = os.path.dirname(os.path.dirname(os.path.abspath(__file__)))
REPO = os.environ.get("VERIF_REPO", "/repo")
CACHE = os.path.join(VERIF, ".cache")
KANI_TARGET = os.path.join(CACHE, "kani-target")
PLAYBACK_TARGET = os.path.join(CACHE, "kani-playback-target")
REPLAY_DIR = os.path.join(VERIF, "replay")
EVIDENCE_DIR = os.path.join(VERIF, "evidence")


class Undecided(Exception):
    """Raised when a check cannot decide (lost anchor, tool failure, timeout): exit 2."""


def log(*a):
    print(*a, file=sys.stderr, flush=True)


def sha(text):
    return hashlib.sha256(text.encode()).hexdigest()[:16]


# --------------------------------------------------------------------------------------------
# scratch copies


def make_scratch(tag="k"):
    base = os.environ.get("TMPDIR", "/tmp")
    d = tempfile.mkdtemp(prefix="mina-verif-%s." % tag, dir=base)
    dst = os.path.join(d, "repo")
    ignore = shutil.ignore_patterns("target", ".git", "art", "doc", "*.orig")
    shutil.copytree(REPO, dst, ignore=ignore, symlinks=True)
    return d, dst


def remove_scratch(d):
    shutil.rmtree(d, ignore_errors=True)


# --------------------------------------------------------------------------------------------
# source scanning helpers


def find_matching_brace(text, open_idx):
    """text[open_idx] == '{' -> index of the matching '}' (skips strings, chars, comments)."""
    depth = 0
    i = open_idx
    n = len(text)
    while i < n:
        c = text[i]
        if c == "/" and text.startswith("//", i):
            j = text.find("\n", i)
            i = n if j < 0 else j
            continue
        if c == "/" and text.startswith("/*", i):
            j = text.find("*/", i + 2)
            i = n if j < 0 else j + 2
            continue
        if c == '"':
            i += 1
            while i < n and text[i] != '"':
                if text[i] == "\\":
                    i += 1
                i += 1
            i += 1
            continue
        if c == "'":
            # char literal or lifetime
            m = re.match(r"'(\\.[^']*|[^'\\])'", text[i:])
            if m:
                i += m.end()
                continue
            i += 1
            continue
        if c == "{":
            depth += 1
        elif c == "}":
            depth -= 1
            if depth == 0:
                return i
        i += 1
    raise Undecided("unbalanced braces")


def find_fn(text, fn_name, impl_header=None, start=0):
    """Return (line_start_idx, body_open_idx, body_close_idx) of `fn fn_name` (inside the first
    impl block whose header matches impl_header, if given)."""
    lo, hi = start, len(text)
    if impl_header:
        wb = r"\b" if re.match(r"\w", impl_header[-1]) else ""
        m = re.search(r"^[ \t]*" + re.escape(impl_header).replace(r"\ ", r"\s+") + wb + r"[^\n;]*\{", text[start:], re.M)
        if not m:
            # header may span lines (where clauses)
            m = re.search(r"^[ \t]*" + re.escape(impl_header).replace(r"\ ", r"\s+") + wb, text[start:], re.M)
            if not m:
                raise Undecided("anchor lost: impl header %r" % impl_header)
            ob = text.find("{", start + m.end())
        else:
            ob = start + m.end() - 1
        lo = ob
        hi = find_matching_brace(text, ob)
    m = re.search(r"^[ \t]*(?:pub(?:\([^)]*\))?\s+)?(?:const\s+)?fn\s+" + re.escape(fn_name) + r"\b", text[lo:hi], re.M)
    if not m:
        raise Undecided("anchor lost: fn %s in %r" % (fn_name, impl_header))
    ls = lo + m.start()
    # the body is the first `{` outside (), [] ; a `;` outside them first means a declaration
    depth = 0
    ob = -1
    i = lo + m.end()
    while i < len(text):
        c = text[i]
        if c in "([":
            depth += 1
        elif c in ")]":
            depth -= 1
        elif c == ";" and depth == 0:
            raise Undecided("fn %s has no body" % fn_name)
        elif c == "{" and depth == 0:
            ob = i
            break
        i += 1
    if ob < 0:
        raise Undecided("fn %s has no body" % fn_name)
    cb = find_matching_brace(text, ob)
    return ls, ob, cb


def line_of(text, idx):
    return text.count("\n", 0, idx) + 1


# --------------------------------------------------------------------------------------------
# Route K: injection

FREM_RE = re.compile(r"(?<![\w.])((?:self\.)?[A-Za-z_][\w]*(?:\.[A-Za-z_]\w*)*)\s*%\s*((?:self\.)?[A-Za-z_][\w]*(?:\.[A-Za-z_]\w*)*)")


def inject_kani(scratch_repo, plan_path=None, omit_contracts=()):
    plan_path = plan_path or os.path.join(VERIF, "contracts/kani/inject.json")
    plan = json.load(open(plan_path))
    report = {"added_lines": 0, "rewrites": [], "functions": [], "files": []}

    def rd(rel):
        p = os.path.join(scratch_repo, rel)
        if not os.path.exists(p):
            raise Undecided("anchor lost: file %s" % rel)
        return open(p).read()

    def wr(rel, s):
        open(os.path.join(scratch_repo, rel), "w").write(s)

    for c in plan.get("copy", []):
        dst = os.path.join(scratch_repo, c["to"])
        os.makedirs(os.path.dirname(dst), exist_ok=True)
        txt = open(os.path.join(VERIF, c["from"])).read()
        for name in omit_contracts:
            # harnesses that need the omitted contract are fenced in the harness file
            txt = re.sub(r"//@@begin-needs-contract " + re.escape(name) + r"\n.*?//@@end-needs-contract " + re.escape(name) + r"\n",
                         "", txt, flags=re.S)
        open(dst, "w").write(txt)
        report["files"].append(c["to"])

    for e in plan.get("frem", []):
        s = rd(e["file"])
        # only outside of comments: process line by line, skip comment lines and #[cfg(test)] mod
        cut = s.find("#[cfg(test)]")
        head, tail = (s, "") if cut < 0 else (s[:cut], s[cut:])
        out = []
        n = 0
        for line in head.split("\n"):
            code = line.split("//")[0]
            if "%" in code:
                new, k = FREM_RE.subn(r"crate::verif_frem::frem32(\1, \2)", code)
                if k:
                    n += k
                    line = new + line[len(code):]
            out.append(line)
        if n == 0 and not e.get("optional"):
            raise Undecided("anchor lost: no `%%` in %s" % e["file"])
        wr(e["file"], "\n".join(out) + tail)
        report["rewrites"].append({"file": e["file"], "rule": "f32 `a % b` -> crate::verif_frem::frem32(a, b)", "count": n})

    for e in plan.get("before_item", []):
        s = rd(e["file"])
        m = re.search(r"^[ \t]*" + re.escape(e["item"]).replace(r"\ ", r"\s+") + r"\b", s, re.M)
        if not m:
            raise Undecided("anchor lost: %s in %s" % (e["item"], e["file"]))
        ins = "".join(l + "\n" for l in e["lines"])
        s = s[: m.start()] + ins + s[m.start():]
        wr(e["file"], s)
        report["added_lines"] += len(e["lines"])

    orig_cache = {}
    for e in plan.get("before_fn", []):
        if e.get("contract") in omit_contracts:
            # this harness group replaces the function by an arbitrary-result stub, which Kani does not
            # allow on a function that carries a contract
            continue
        s = rd(e["file"])
        ls, ob, cb = find_fn(s, e["fn"], e.get("impl"))
        # record the real function text (from /repo, un-injected) for evidence
        if e["file"] not in orig_cache:
            orig_cache[e["file"]] = open(os.path.join(REPO, e["file"])).read()
        o = orig_cache[e["file"]]
        try:
            ols, oob, ocb = find_fn(o, e["fn"], e.get("impl"))
            report["functions"].append({
                "function": e.get("contract", e["fn"]),
                "file": e["file"],
                "line": line_of(o, ols),
                "sha256_16": sha(o[ols:ocb + 1]),
                "contract_clauses": len(e["lines"]),
            })
        except Undecided:
            pass
        indent = re.match(r"[ \t]*", s[ls:]).group(0)
        ins = "".join(indent + l + "\n" for l in e["lines"])
        s = s[:ls] + ins + s[ls:]
        wr(e["file"], s)
        report["added_lines"] += len(e["lines"])

    for e in plan.get("append", []):
        s = rd(e["file"])
        if not s.endswith("\n"):
            s += "\n"
        s += "\n" + e["text"]
        wr(e["file"], s)
        report["added_lines"] += e["text"].count("\n")

    for e in plan.get("cargo_dev_deps", []):
        pass
    return report


# --------------------------------------------------------------------------------------------
# Route K: running Kani


def kani_env():
    env = dict(os.environ)
    env["CARGO_NET_OFFLINE"] = "true"
    env.pop("RUSTUP_TOOLCHAIN", None)
    env.pop("CARGO_TARGET_DIR", None)
    return env


def reap_orphans():
    """Kani's per-harness timeout kills cbmc but not the external SMT solver it spawned; such a solver
    is re-parented to init and spins forever. Kill cvc5/z3/kissat processes whose parent is init."""
    try:
        for pid in os.listdir("/proc"):
            if not pid.isdigit():
                continue
            try:
                stat = open("/proc/%s/stat" % pid).read()
                comm = stat[stat.index("(") + 1:stat.rindex(")")]
                ppid = int(stat[stat.rindex(")") + 2:].split()[1])
                if comm in ("cvc5", "z3", "kissat", "cadical") and ppid == 1:
                    os.kill(int(pid), 9)
            except Exception:
                continue
    except Exception:
        pass
    # temporary CNF / SMT2 files of killed back ends (older than 3 h: not from a running check)
    try:
        now = time.time()
        for f in os.listdir("/tmp"):
            if f.startswith("external-sat") or f.startswith("smt2_dec_problem_"):
                p = os.path.join("/tmp", f)
                try:
                    if now - os.path.getmtime(p) > 3 * 3600:
                        os.remove(p)
                except OSError:
                    pass
    except Exception:
        pass


def run_kani(scratch_repo, pkg, harnesses, timeout_s=300, jobs=8, tests=False, extra=None, wall_timeout=None, playback=False, features=None):
    """Run cargo kani for the given fully-qualified harness names. Returns dict name -> result."""
    os.makedirs(CACHE, exist_ok=True)
    out_json = os.path.join(os.path.dirname(scratch_repo), "kani-%s-%d.json" % (pkg or "extract", int(time.time() * 1000) % 10 ** 9))
    cmd = ["cargo", "kani"] + (["-p", pkg] if pkg else []) + ["--target-dir", KANI_TARGET if pkg else KANI_TARGET + "-bevy",
           "-Z", "function-contracts", "-Z", "stubbing", "-Z", "unstable-options",
           "--output-format", "terse", "--export-json", out_json,
           "--harness-timeout", "%ds" % timeout_s, "--exact"]
    if jobs and jobs > 1 and not playback:
        cmd += ["-j", str(jobs)]
    if tests:
        cmd += ["--tests"]
    if features:
        cmd += ["--features", features]
    if playback:
        cmd += ["-Z", "concrete-playback", "--concrete-playback=print"]
    if extra:
        cmd += extra
    for h in harnesses:
        cmd += ["--harness", h]
    reap_orphans()
    t0 = time.time()
    wall = wall_timeout or (timeout_s * max(1, (len(harnesses) + max(jobs, 1) - 1) // max(jobs, 1)) + 900)
    try:
        p = subprocess.run(cmd, cwd=scratch_repo, env=kani_env(), stdout=subprocess.PIPE, stderr=subprocess.STDOUT,
                           text=True, timeout=wall)
        out = p.stdout
        rc = p.returncode
    except subprocess.TimeoutExpired as e:
        subprocess.run(["killall", "-q", "cbmc", "kani-driver", "cargo-kani", "goto-instrument"], check=False)
        out = (e.stdout or "") if isinstance(e.stdout, str) else (e.stdout or b"").decode(errors="replace")
        raise Undecided("cargo kani wall-clock timeout after %ds\n%s" % (wall, out[-2000:]))
    dt = time.time() - t0
    reap_orphans()
    results = {}
    data = None
    if os.path.exists(out_json):
        try:
            data = json.load(open(out_json))
        except Exception:
            data = None
    if data is None:
        # compile error or tool crash
        raise Undecided("cargo kani produced no result (rc=%d):\n%s" % (rc, tail_errors(out)))
    stats = {c["harness_id"]: (c.get("cbmc_stats") or {}) for c in data.get("cbmc", [])}
    solver = {c["harness_id"]: (c.get("configuration") or {}).get("solver") for c in data.get("cbmc", [])}
    errs = {c["harness_id"]: c for c in data.get("error_details", [])}
    for r in data.get("verification_results", {}).get("results", []):
        hid = r["harness_id"]
        checks = r.get("checks", [])
        results[hid] = {
            "status": r["status"],
            "duration_ms": r.get("duration_ms"),
            "checks": checks,
            "n_checks": len(checks),
            "failed": [c for c in checks if c["status"] == "Failure"],
            "undetermined": [c for c in checks if c["status"] not in ("Success", "Failure", "Unreachable", "Satisfied", "Unsatisfiable", "Covered", "Uncovered")],
            "covers": [c for c in checks if c.get("category") == "cover" or c["status"] in ("Satisfied", "Unsatisfiable")],
            "solver_s": (stats.get(hid) or {}).get("runtime_decision_procedure_s"),
            "solver": solver.get(hid),
            "error": errs.get(hid, {}),
        }
    missing = [h for h in harnesses if h not in results]
    return {"results": results, "missing": missing, "wall_s": dt, "stdout": out, "rc": rc, "cmd": " ".join(cmd)}


def tail_errors(out, n=60):
    lines = out.splitlines()
    errs = [i for i, l in enumerate(lines) if l.startswith("error")]
    if errs:
        i = errs[0]
        return "\n".join(lines[i:i + n])
    return "\n".join(lines[-n:])


PLAYBACK_RE = re.compile(r"Concrete playback unit test for `([^`]+)`:\n```\n(.*?)\n```", re.S)


def kani_counterexample(scratch_repo, pkg, harness, timeout_s=600, tests=False, features=None, flags=()):
    """Re-run one failing harness with concrete playback; return the generated unit test text."""
    # counterexample extraction always uses a SAT back end: CBMC cannot read float models back from
    # the SMT2 solvers (flatten2bv invariant), and finding a model is the easy direction for SAT.
    r = run_kani(scratch_repo, pkg, [harness], timeout_s=timeout_s, jobs=1, tests=tests, playback=True,
                 extra=["--no-assert-contracts", "--solver", "cadical"] + [f for f in flags if not f.startswith("--features=")], features=features)
    tests_found = PLAYBACK_RE.findall(r["stdout"])
    out = []
    for (h, t) in tests_found:
        # call the harness by its full path so the test can be appended at the top of the module file
        t = re.sub(r"concrete_playback_run\(concrete_vals, \w+\)", "concrete_playback_run(concrete_vals, crate::%s)" % h, t)
        # drop the generated doc comment: a multi-line assertion message makes it spill out of the `///` lines
        k = t.find("#[test]")
        if k > 0:
            t = t[k:]
        out.append(t)
    return out, r


def native_replay(scratch_repo, pkg, harness_file_rel, test_text, tests=False, release=False):
    """Append the Kani-generated unit test to the harness module in the scratch copy and run it
    natively (cargo kani playback): the real functions, the real `%`. Returns (failed, output)."""
    m = re.search(r"fn (kani_concrete_playback_\w+)\s*\(", test_text)
    if not m:
        return None, "no test name"
    name = m.group(1)
    p = os.path.join(scratch_repo, harness_file_rel)
    s = open(p).read()
    if name not in s:
        s += "\n" + test_text + "\n"
        open(p, "w").write(s)
    env = kani_env()
    env["CARGO_TARGET_DIR"] = PLAYBACK_TARGET if pkg else PLAYBACK_TARGET + "-bevy"
    env["RUST_BACKTRACE"] = "0"
    # (`cargo kani playback` takes no --tests: it runs `cargo test` for the package, integration tests included)
    cmd = ["cargo", "kani", "playback", "-Z", "concrete-playback"] + (["-p", pkg] if pkg else [])
    cmd += ["--", name, "--exact"] if False else ["--", name]
    try:
        pr = subprocess.run(cmd, cwd=scratch_repo, env=env, stdout=subprocess.PIPE, stderr=subprocess.STDOUT, text=True, timeout=1800)
    except subprocess.TimeoutExpired:
        return None, "native replay timed out"
    out = pr.stdout
    m2 = re.search(r"^test \S*" + re.escape(name) + r" \.\.\. (ok|FAILED)", out, re.M)
    if not m2:
        return None, out[-3000:]
    failed = m2.group(1) == "FAILED"
    if failed and "`kani::assume` should always hold" in out:
        # the concrete input violates an assumption of the harness when the REAL functions run (it passed through an
        # abstraction, e.g. A4'/A1): that is "did not reproduce", not a confirmation
        return False, "(the replay stopped at a harness assumption, not at the failed obligation: not reproduced)\n" + out[-3000:]
    # keep the part of the output that belongs to the test (panic message), not the build log
    i = out.find("running 1 test")
    if i >= 0:
        j = out.find("Doc-tests", i)
        out = out[i:j if j > 0 else len(out)]
    return failed, out[-4000:]


# --------------------------------------------------------------------------------------------
# evidence / findings


def load_known_findings():
    p = os.path.join(VERIF, "known_findings.json")
    if not os.path.exists(p):
        return []
    return json.load(open(p)).get("findings", [])


def write_evidence(pid, ev):
    os.makedirs(EVIDENCE_DIR, exist_ok=True)
    p = os.path.join(EVIDENCE_DIR, "%s.json" % pid)
    tmp = p + ".tmp"
    json.dump(ev, open(tmp, "w"), indent=1, sort_keys=False)
    os.replace(tmp, p)
    return p


def write_replay(pid, obligation, payload):
    os.makedirs(REPLAY_DIR, exist_ok=True)
    h = sha(json.dumps(payload, sort_keys=True, default=str))
    safe = re.sub(r"[^A-Za-z0-9_.-]+", "_", obligation)[:80]
    p = os.path.join(REPLAY_DIR, "%s-%s-%s.json" % (pid, safe, h))
    json.dump(payload, open(p, "w"), indent=1, default=str)
    return p
