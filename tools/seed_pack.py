#!/usr/bin/env python3
"""(dev helper) package a confirmed seeded change into /verif/seeded/<name>/"""
import json, os, shutil, sys, glob
name, prop, dest, needs, caught = sys.argv[1:6]
src = "/tmp/mut/out/%s" % name.split("-")[0]
d = "/verif/seeded/%s" % name
os.makedirs(d, exist_ok=True)
shutil.copyfile(src + "/patch.diff", d + "/patch.diff")
demo = sorted(glob.glob(src + "/demo_*.rs"))[0]
shutil.copyfile(demo, d + "/" + os.path.basename(demo))
if os.path.exists(src + "/notes.md"):
    shutil.copyfile(src + "/notes.md", d + "/notes.md")
meta = {
    "breaks_property": prop,
    "author": "independent sub-agent given only the property text and a scratch worktree of /repo",
    "needs_to_manifest": needs,
    "demonstration": {"file": os.path.basename(demo), "place_at": dest,
                      "run": "cargo test --offline %s --test %s" % ("-p mina_core" if dest.startswith("core/") else "-p bevy_mina" if dest.startswith("bevy/") else "-p mina", os.path.basename(dest)[:-3])},
    "confirmed_by_me": ["demo passes on the unchanged tree (fresh worktree)", "existing suite passes with the change (cargo test --workspace --no-fail-fast --offline: 55 passed, 0 failed)", "demo fails with the change"],
    "ran": "tools/seed_eval.sh: git -C /repo apply patch.diff; ./check <property>; git -C /repo checkout -- .",
    "detected_by": json.loads(caught),
}
json.dump(meta, open(d + "/meta.json", "w"), indent=1)
print("packed", d)
