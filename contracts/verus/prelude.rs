// Route V prelude: trusted environment (A2, A3) + specification functions + lemmas.
// Everything below the `===== extracted` marker of the assembled file is the real code.
#![allow(unused_imports, dead_code, unused_variables)]
use vstd::prelude::*;

verus! {

// ---------------------------------------------------------------------------------------------
// Trusted environment

/// A3: `Easing` is opaque; its `clone` returns an equal value (derive(Clone) + dyn-clone).
#[verifier::external_body]
pub struct Easing { _p: u8 }

impl Clone for Easing {
    #[verifier::external_body]
    fn clone(&self) -> (r: Self)
        ensures r == *self
    { unimplemented!() }
}

/// `f32::clamp(t, 0.0, 1.0)`: an uninterpreted function of `t` (A4: std).
pub uninterp spec fn spec_clamp(t: f32, lo: f32, hi: f32) -> f32;

pub assume_specification[ f32::clamp ](t: f32, lo: f32, hi: f32) -> (r: f32)
    ensures r == spec_clamp(t, lo, hi);

/// The `Timeline` interface as far as `MergedTimeline::update` uses it: `update` is an arbitrary
/// function of (timeline, previous target, time) - `spec_update` - i.e. every possible component.
pub trait Timeline: Sized {
    type Target;
    spec fn spec_update(&self, values: Self::Target, time: f32) -> Self::Target;
    fn update(&self, values: &mut Self::Target, time: f32)
        ensures *final(values) == self.spec_update(*old(values), time);
}

/// C12: applying the first `n` components in order to the same target at the same time.
pub open spec fn fold_update<T: Timeline>(ts: Seq<T>, v: T::Target, time: f32, n: int) -> T::Target
    decreases n
{
    if n <= 0 { v } else { ts[n - 1].spec_update(fold_update(ts, v, time, n - 1), time) }
}

/// Marker only: the extracted functions never call `lerp`.
pub trait Lerp { }

// ---------------------------------------------------------------------------------------------
// A2: f32 comparisons.  `a < b` in executable code ensures `lt_ensures::<f32>(a, b, r)`; the
// axioms say that the run-time comparison is a function of its operands (flt/fgt denote it) and
// that on the values the precondition admits it is a strict order.  Each axiom is also proved
// bit-precisely for all f32 bit patterns by the Kani harnesses `kani_float_axioms::*`.

pub open spec fn flt(a: f32, b: f32) -> bool { choose|o: bool| vstd::std_specs::cmp::lt_ensures::<f32>(a, b, o) }
pub open spec fn fgt(a: f32, b: f32) -> bool { choose|o: bool| vstd::std_specs::cmp::gt_ensures::<f32>(a, b, o) }

#[verifier::external_body]
pub broadcast proof fn axiom_lt_functional(a: f32, b: f32, o: bool)
    requires #[trigger] vstd::std_specs::cmp::lt_ensures::<f32>(a, b, o)
    ensures o == flt(a, b)
{}

#[verifier::external_body]
pub broadcast proof fn axiom_gt_functional(a: f32, b: f32, o: bool)
    requires #[trigger] vstd::std_specs::cmp::gt_ensures::<f32>(a, b, o)
    ensures o == fgt(a, b)
{}


/// A valid keyframe position: a non-NaN value in [0, 1] (the precondition of C01/C20).
pub uninterp spec fn pos01(t: f32) -> bool;

/// A2 order facts about positions (each one is a Kani harness over all f32 bit patterns).
#[verifier::external_body]
pub broadcast proof fn axiom_pos01_zero_or_below_one(t: f32)
    requires #[trigger] pos01(t)
    ensures fgt(t, 0.0f32) || flt(t, 1.0f32)
{}

/// `a <= b` on positions: the run-time `b < a` is false.
pub open spec fn fle(a: f32, b: f32) -> bool { !flt(b, a) }
/// `t` is at 0%: the run-time `t > 0.0` is false.
pub open spec fn is_zero(t: f32) -> bool { !fgt(t, 0.0f32) }
/// `t` is at 100%: the run-time `t < 1.0` is false.
pub open spec fn is_one(t: f32) -> bool { !flt(t, 1.0f32) }

#[verifier::external_body]
pub broadcast proof fn axiom_pos01_literals()
    ensures #[trigger] pos01(0.0f32), #[trigger] pos01(1.0f32), is_zero(0.0f32), is_one(1.0f32)
{}

/// <= is reflexive and transitive on positions.
#[verifier::external_body]
pub broadcast proof fn axiom_fle_refl(a: f32)
    requires #[trigger] pos01(a)
    ensures fle(a, a)
{}

#[verifier::external_body]
pub proof fn axiom_fle_trans(a: f32, b: f32, c: f32)
    requires pos01(a), pos01(b), pos01(c), fle(a, b), fle(b, c)
    ensures fle(a, c)
{}

/// a < b implies a <= b.
#[verifier::external_body]
pub proof fn axiom_flt_implies_fle(a: f32, b: f32)
    requires pos01(a), pos01(b), flt(a, b)
    ensures fle(a, b)
{}

/// A position at 0% is <= every position; every position is <= a position at 100%.
#[verifier::external_body]
pub proof fn axiom_zero_least(z: f32, b: f32)
    requires pos01(z), pos01(b), is_zero(z)
    ensures fle(z, b)
{}

#[verifier::external_body]
pub proof fn axiom_one_greatest(a: f32, o: f32)
    requires pos01(a), pos01(o), is_one(o)
    ensures fle(a, o)
{}

// ---------------------------------------------------------------------------------------------
// Specification of the per-property frame list (C01), written from the property statement as a
// fold over the master keyframes.

/// The value function is pure: callable everywhere and functional.
pub open spec fn pure_fn<Data, Value, F: Fn(&Data) -> Option<Value>>(f: F) -> bool {
    &&& forall|d: &Data| #[trigger] f.requires((d,))
    &&& forall|d: &Data, r: Option<Value>| #[trigger] f.ensures((d,), r) ==> r == gv(f, d)
}

pub open spec fn gv<Data, Value, F: Fn(&Data) -> Option<Value>>(f: F, d: &Data) -> Option<Value> {
    choose|r: Option<Value>| f.ensures((d,), r)
}

/// Keyframe `i` defines the property.
pub open spec fn defines<Data: Clone, Value, F: Fn(&Data) -> Option<Value>>(f: F, kfs: Seq<Keyframe<Data>>, i: int) -> bool {
    gv(f, &kfs[i].data).is_some()
}

/// Some keyframe among the first `n` defines the property.
pub open spec fn has_data<Data: Clone, Value, F: Fn(&Data) -> Option<Value>>(f: F, kfs: Seq<Keyframe<Data>>, n: int) -> bool
    decreases n
{
    if n <= 0 { false } else { defines(f, kfs, n - 1) || has_data(f, kfs, n - 1) }
}

/// C01: "the latest easing given on a keyframe defining that property, otherwise the
/// timeline's default easing" — after the first `n` keyframes.
pub open spec fn easing_in_force<Data: Clone, Value, F: Fn(&Data) -> Option<Value>>(f: F, kfs: Seq<Keyframe<Data>>, de: Easing, n: int) -> Easing
    decreases n
{
    if n <= 0 {
        de
    } else if defines(f, kfs, n - 1) && kfs[n - 1].easing.is_some() {
        kfs[n - 1].easing.unwrap()
    } else {
        easing_in_force(f, kfs, de, n - 1)
    }
}

/// Where a frame's value comes from.
pub enum Src {
    /// the property type's default value (synthetic 0% frame)
    Default,
    /// the value keyframe `i` gives
    Key(int),
    /// a copy of the previous frame's value (synthetic 100% frame)
    Hold,
}

/// Abstract frame: position, provenance of the value, easing.
pub struct AFrame {
    pub t: f32,
    pub src: Src,
    pub e: Easing,
}

/// The frames produced by the first `n` keyframes: a synthetic 0% frame with the default value
/// and the *default* easing iff the first keyframe seen lies after 0%, then one frame per
/// keyframe that defines the property, in order, each with the easing in force; keyframes that
/// omit the property contribute nothing.
pub open spec fn a_frames<Data: Clone, Value, F: Fn(&Data) -> Option<Value>>(f: F, kfs: Seq<Keyframe<Data>>, de: Easing, n: int) -> Seq<AFrame>
    decreases n
{
    if n <= 0 {
        Seq::empty()
    } else {
        let p = a_frames(f, kfs, de, n - 1);
        let kf = kfs[n - 1];
        let p1 = if p.len() == 0 && fgt(kf.normalized_time, 0.0f32) {
            p.push(AFrame { t: 0.0f32, src: Src::Default, e: de })
        } else {
            p
        };
        if defines(f, kfs, n - 1) {
            p1.push(AFrame { t: kf.normalized_time, src: Src::Key(n - 1), e: easing_in_force(f, kfs, de, n) })
        } else {
            p1
        }
    }
}

/// Master-to-property index map: for each master keyframe the index of the last frame produced
/// so far (0 if none yet).
pub open spec fn a_map<Data: Clone, Value, F: Fn(&Data) -> Option<Value>>(f: F, kfs: Seq<Keyframe<Data>>, de: Easing, n: int) -> Seq<int>
    decreases n
{
    if n <= 0 {
        Seq::empty()
    } else {
        let len = a_frames(f, kfs, de, n).len();
        a_map(f, kfs, de, n - 1).push(if len >= 1 { len - 1 } else { 0 })
    }
}

/// The complete abstract frame list: `a_frames` over all keyframes plus a copy of the last
/// frame at 100% iff the last frame lies before 100%.
pub open spec fn a_frames_final<Data: Clone, Value, F: Fn(&Data) -> Option<Value>>(f: F, kfs: Seq<Keyframe<Data>>, de: Easing) -> Seq<AFrame> {
    let p = a_frames(f, kfs, de, kfs.len() as int);
    if p.len() > 0 && flt(p.last().t, 1.0f32) {
        p.push(AFrame { t: 1.0f32, src: Src::Hold, e: p.last().e })
    } else {
        p
    }
}

/// Concrete frame `c` (at index `j` of `frames`) realises abstract frame `a`.
pub open spec fn frame_matches<Data: Clone, Value: Clone, F: Fn(&Data) -> Option<Value>>(
    f: F, kfs: Seq<Keyframe<Data>>, dv: Value, frames: Seq<SplitKeyframe<Value>>, j: int, a: AFrame,
) -> bool {
    let c = frames[j];
    &&& c.spec_time() == a.t
    &&& c.spec_easing() == a.e
    &&& match a.src {
        Src::Default => cloned(dv, c.spec_value()),
        Src::Key(i) => 0 <= i < kfs.len() && gv(f, &kfs[i].data) == Some(c.spec_value()),
        Src::Hold => j > 0 && cloned(frames[j - 1].spec_value(), c.spec_value()),
    }
}

pub open spec fn frames_match<Data: Clone, Value: Clone, F: Fn(&Data) -> Option<Value>>(
    f: F, kfs: Seq<Keyframe<Data>>, dv: Value, frames: Seq<SplitKeyframe<Value>>, a: Seq<AFrame>,
) -> bool {
    &&& frames.len() == a.len()
    &&& forall|j: int| 0 <= j < a.len() ==> #[trigger] frame_matches(f, kfs, dv, frames, j, a[j])
}

/// View helpers usable in invariants (typed, to avoid inference on fresh Vecs).
pub open spec fn vframes<Value: Clone>(v: &Vec<SplitKeyframe<Value>>) -> Seq<SplitKeyframe<Value>> { v@ }
pub open spec fn vmap(v: &Vec<usize>) -> Seq<usize> { v@ }

/// The concrete index map holds exactly the abstract one.
pub open spec fn map_matches(v: Seq<usize>, a: Seq<int>) -> bool {
    &&& v.len() == a.len()
    &&& forall|i: int| 0 <= i < a.len() ==> (#[trigger] v[i]) as int == a[i]
}

// -- lemmas ------------------------------------------------------------------------------------

/// No frames yet means no defining keyframe yet, hence the easing in force is still the default.
pub proof fn lemma_no_frames_default_easing<Data: Clone, Value, F: Fn(&Data) -> Option<Value>>(f: F, kfs: Seq<Keyframe<Data>>, de: Easing, n: int)
    requires 0 <= n <= kfs.len(), a_frames(f, kfs, de, n).len() == 0,
    ensures easing_in_force(f, kfs, de, n) == de, !has_data(f, kfs, n),
    decreases n
{
    if n > 0 {
        lemma_no_frames_default_easing(f, kfs, de, n - 1);
    }
}

/// Some defining keyframe means at least one frame; map entries index into the frame list.
pub proof fn lemma_frames_nonempty_and_map_in_range<Data: Clone, Value, F: Fn(&Data) -> Option<Value>>(f: F, kfs: Seq<Keyframe<Data>>, de: Easing, n: int)
    requires 0 <= n <= kfs.len(),
    ensures
        has_data(f, kfs, n) ==> a_frames(f, kfs, de, n).len() >= 1,
        a_map(f, kfs, de, n).len() == n,
        forall|i: int| 0 <= i < n ==> 0 <= (#[trigger] a_map(f, kfs, de, n)[i]),
        forall|i: int| 0 <= i < n ==> (#[trigger] a_map(f, kfs, de, n)[i]) == 0 || a_map(f, kfs, de, n)[i] < a_frames(f, kfs, de, n).len(),
    decreases n
{
    if n > 0 {
        lemma_frames_nonempty_and_map_in_range(f, kfs, de, n - 1);
        assert(a_frames(f, kfs, de, n - 1).len() <= a_frames(f, kfs, de, n).len());
    }
}


// ---------------------------------------------------------------------------------------------
// Linking the frame list to the master keyframe positions (what the O(1) lookup relies on)

/// Master keyframes are valid: positions in [0,1], non-decreasing (what
/// `TimelineBuilderArguments::from` delivers: sorted by `total_cmp`).
pub open spec fn kfs_ok<Data: Clone>(kfs: Seq<Keyframe<Data>>) -> bool {
    &&& forall|i: int| 0 <= i < kfs.len() ==> pos01(#[trigger] kfs[i].normalized_time)
    &&& forall|i: int, j: int| 0 <= i <= j < kfs.len() ==> fle(#[trigger] kfs[i].normalized_time, #[trigger] kfs[j].normalized_time)
}

pub open spec fn af_inv<Data: Clone, Value, F: Fn(&Data) -> Option<Value>>(f: F, kfs: Seq<Keyframe<Data>>, de: Easing, n: int) -> bool {
    let p = a_frames(f, kfs, de, n);
    let m = a_map(f, kfs, de, n);
    &&& m.len() == n
    &&& p.len() <= 2 * n
    &&& forall|j: int| 0 <= j < p.len() ==> pos01(#[trigger] p[j].t)
    &&& (p.len() > 0 ==> is_zero(p[0].t))
    &&& (n >= 1 ==> forall|j: int| 0 <= j < p.len() ==> fle(#[trigger] p[j].t, kfs[n - 1].normalized_time))
    &&& forall|i: int| 0 <= i < n ==> 0 <= (#[trigger] m[i]) && (m[i] < p.len() || (p.len() == 0 && m[i] == 0))
    &&& forall|i: int| 0 <= i < n ==> ((#[trigger] m[i]) == 0 || fle(p[m[i]].t, kfs[i].normalized_time))
    &&& forall|i: int, j: int| #![trigger m[i], p[j]] 0 <= i && i + 1 < n && m[i] < j < p.len() ==> fle(kfs[i + 1].normalized_time, p[j].t)
    &&& (n >= 1 ==> m[0] <= 1)
    &&& (n >= 1 ==> m[n - 1] == (if p.len() >= 1 { p.len() - 1 } else { 0 }))
}

/// `a_frames(n - 1)` is a prefix of `a_frames(n)`; same for the map.
pub proof fn lemma_af_step_prefix<Data: Clone, Value, F: Fn(&Data) -> Option<Value>>(f: F, kfs: Seq<Keyframe<Data>>, de: Easing, n: int)
    requires 1 <= n <= kfs.len(),
    ensures
        a_frames(f, kfs, de, n - 1).len() <= a_frames(f, kfs, de, n).len(),
        a_frames(f, kfs, de, n).len() <= a_frames(f, kfs, de, n - 1).len() + 2,
        forall|j: int| 0 <= j < a_frames(f, kfs, de, n - 1).len() ==> a_frames(f, kfs, de, n)[j] == a_frames(f, kfs, de, n - 1)[j],
        forall|i: int| 0 <= i < n - 1 ==> a_map(f, kfs, de, n)[i] == a_map(f, kfs, de, n - 1)[i],
        a_map(f, kfs, de, n).len() == a_map(f, kfs, de, n - 1).len() + 1,
{
    lemma_frames_nonempty_and_map_in_range(f, kfs, de, n - 1);
    lemma_frames_nonempty_and_map_in_range(f, kfs, de, n);
}

pub proof fn lemma_af_inv<Data: Clone, Value, F: Fn(&Data) -> Option<Value>>(f: F, kfs: Seq<Keyframe<Data>>, de: Easing, n: int)
    requires 0 <= n <= kfs.len(), kfs_ok(kfs),
    ensures af_inv(f, kfs, de, n),
    decreases n
{
    broadcast use axiom_pos01_literals, axiom_fle_refl;
    if n > 0 {
        lemma_af_inv(f, kfs, de, n - 1);
        lemma_af_step_prefix(f, kfs, de, n);
        let p0 = a_frames(f, kfs, de, n - 1);
        let p = a_frames(f, kfs, de, n);
        let m0 = a_map(f, kfs, de, n - 1);
        let m = a_map(f, kfs, de, n);
        let kt = kfs[n - 1].normalized_time;
        let lead = p0.len() == 0 && fgt(kt, 0.0f32);
        let def = defines(f, kfs, n - 1);
        assert(pos01(kt));
        // every frame is a valid position, and is at or before keyframe n-1
        assert forall|j: int| 0 <= j < p.len() implies pos01(#[trigger] p[j].t) && fle(p[j].t, kt) by {
            if j < p0.len() {
                assert(p[j] == p0[j]);
                assert(pos01(p0[j].t));
                if n >= 2 {
                    assert(fle(p0[j].t, kfs[n - 2].normalized_time));
                    assert(fle(kfs[n - 2].normalized_time, kfs[n - 1].normalized_time));
                    axiom_fle_trans(p0[j].t, kfs[n - 2].normalized_time, kt);
                }
            } else if lead && j == 0 {
                assert(p[j].t == 0.0f32);
                axiom_zero_least(0.0f32, kt);
            } else {
                assert(p[j].t == kt);
            }
        }
        // first frame at 0%
        if p.len() > 0 {
            if p0.len() > 0 {
                assert(p[0] == p0[0]);
            } else if lead {
                assert(p[0].t == 0.0f32);
            } else {
                assert(p[0].t == kt);
                assert(is_zero(kt));
            }
        }
        // map entries
        assert forall|i: int| 0 <= i < n implies (0 <= (#[trigger] m[i]) && (m[i] < p.len() || (p.len() == 0 && m[i] == 0)))
            && (m[i] == 0 || fle(p[m[i] as int].t, kfs[i].normalized_time)) by {
            if i < n - 1 {
                assert(m[i] == m0[i]);
                if m0[i] != 0 {
                    assert((m0[i] as int) < p0.len());
                    assert(p[m0[i] as int] == p0[m0[i] as int]);
                }
            } else {
                if m[i] != 0 {
                    assert(fle(p[m[i] as int].t, kt));
                }
            }
        }
        // frames after the mapped index come from later keyframes
        assert forall|i: int, j: int| #![trigger m[i], p[j]] 0 <= i && i + 1 < n && m[i] < j < p.len()
            implies fle(kfs[i + 1].normalized_time, p[j].t) by {
            assert(m[i] == m0[i]);
            if j < p0.len() {
                assert(p[j] == p0[j]);
                if i + 1 < n - 1 {
                    assert(fle(kfs[i + 1].normalized_time, p0[j].t));
                } else {
                    // i == n - 2: m0[i] is the last index of p0 (or 0 with p0 empty): no such j
                    assert(m0[n - 2] == (if p0.len() >= 1 { p0.len() - 1 } else { 0 }));
                }
            } else {
                // a new frame: the lead sits at index 0 (never above a mapped index), so this is keyframe n-1's frame
                if lead && j == 0 {
                    assert(false);
                } else {
                    assert(p[j].t == kt);
                    assert(fle(kfs[i + 1].normalized_time, kfs[n - 1].normalized_time));
                }
            }
        }
        if n >= 2 {
            assert(m[0] == m0[0]);
        }
        assert(m.len() == n);
        assert(p.len() <= 2 * n);
        assert(m[0] <= 1);
        assert(m[n - 1] == (if p.len() >= 1 { p.len() - 1 } else { 0 }));
        assert(forall|j: int| 0 <= j < p.len() ==> pos01(#[trigger] p[j].t));
        assert(forall|j: int| 0 <= j < p.len() ==> fle(#[trigger] p[j].t, kfs[n - 1].normalized_time));
        assert(forall|i: int| 0 <= i < n ==> 0 <= (#[trigger] m[i]) && (m[i] < p.len() || (p.len() == 0 && m[i] == 0)));
        assert(forall|i: int| 0 <= i < n ==> ((#[trigger] m[i]) == 0 || fle(p[m[i]].t, kfs[i].normalized_time)));
    }
}

} // verus!
