// Route V prelude: trusted environment (A2, A3) + specification functions + lemmas.
// Everything below the `===== extracted` marker of the assembled file is the real code.
#![allow(unused_imports, dead_code, unused_variables)]
use vstd::prelude::*;

verus! {

// ---------------------------------------------------------------------------------------------
// Trusted environment

/// A3: `Easing` is opaque; its `clone` returns an equal value (derive(Clone) + dyn-clone).
#[verifier::external_body]
pub struct Easing { _p: u8 }

impl Clone for Easing {
    #[verifier::external_body]
    fn clone(&self) -> (r: Self)
        ensures r == *self
    { unimplemented!() }
}

/// Marker only: the extracted functions never call `lerp`.
pub trait Lerp { }

// ---------------------------------------------------------------------------------------------
// A2: f32 comparisons.  `a < b` in executable code ensures `lt_ensures::<f32>(a, b, r)`; the
// axioms say that the run-time comparison is a function of its operands (flt/fgt denote it) and
// that on the values the precondition admits it is a strict order.  Each axiom is also proved
// bit-precisely for all f32 bit patterns by the Kani harnesses `kani_float_axioms::*`.

pub open spec fn flt(a: f32, b: f32) -> bool { choose|o: bool| vstd::std_specs::cmp::lt_ensures::<f32>(a, b, o) }
pub open spec fn fgt(a: f32, b: f32) -> bool { choose|o: bool| vstd::std_specs::cmp::gt_ensures::<f32>(a, b, o) }

#[verifier::external_body]
pub broadcast proof fn axiom_lt_functional(a: f32, b: f32, o: bool)
    requires #[trigger] vstd::std_specs::cmp::lt_ensures::<f32>(a, b, o)
    ensures o == flt(a, b)
{}

#[verifier::external_body]
pub broadcast proof fn axiom_gt_functional(a: f32, b: f32, o: bool)
    requires #[trigger] vstd::std_specs::cmp::gt_ensures::<f32>(a, b, o)
    ensures o == fgt(a, b)
{}


/// A valid keyframe position: a non-NaN value in [0, 1] (the precondition of C01/C20).
pub uninterp spec fn pos01(t: f32) -> bool;

/// A2 order facts about positions (each one is a Kani harness over all f32 bit patterns).
#[verifier::external_body]
pub broadcast proof fn axiom_pos01_zero_or_below_one(t: f32)
    requires #[trigger] pos01(t)
    ensures fgt(t, 0.0f32) || flt(t, 1.0f32)
{}

// ---------------------------------------------------------------------------------------------
// Specification of the per-property frame list (C01), written from the property statement as a
// fold over the master keyframes.

/// The value function is pure: callable everywhere and functional.
pub open spec fn pure_fn<Data, Value, F: Fn(&Data) -> Option<Value>>(f: F) -> bool {
    &&& forall|d: &Data| #[trigger] f.requires((d,))
    &&& forall|d: &Data, r: Option<Value>| #[trigger] f.ensures((d,), r) ==> r == gv(f, d)
}

pub open spec fn gv<Data, Value, F: Fn(&Data) -> Option<Value>>(f: F, d: &Data) -> Option<Value> {
    choose|r: Option<Value>| f.ensures((d,), r)
}

/// Keyframe `i` defines the property.
pub open spec fn defines<Data: Clone, Value, F: Fn(&Data) -> Option<Value>>(f: F, kfs: Seq<Keyframe<Data>>, i: int) -> bool {
    gv(f, &kfs[i].data).is_some()
}

/// Some keyframe among the first `n` defines the property.
pub open spec fn has_data<Data: Clone, Value, F: Fn(&Data) -> Option<Value>>(f: F, kfs: Seq<Keyframe<Data>>, n: int) -> bool
    decreases n
{
    if n <= 0 { false } else { defines(f, kfs, n - 1) || has_data(f, kfs, n - 1) }
}

/// C01: "the latest easing given on a keyframe defining that property, otherwise the
/// timeline's default easing" — after the first `n` keyframes.
pub open spec fn easing_in_force<Data: Clone, Value, F: Fn(&Data) -> Option<Value>>(f: F, kfs: Seq<Keyframe<Data>>, de: Easing, n: int) -> Easing
    decreases n
{
    if n <= 0 {
        de
    } else if defines(f, kfs, n - 1) && kfs[n - 1].easing.is_some() {
        kfs[n - 1].easing.unwrap()
    } else {
        easing_in_force(f, kfs, de, n - 1)
    }
}

/// Where a frame's value comes from.
pub enum Src {
    /// the property type's default value (synthetic 0% frame)
    Default,
    /// the value keyframe `i` gives
    Key(int),
    /// a copy of the previous frame's value (synthetic 100% frame)
    Hold,
}

/// Abstract frame: position, provenance of the value, easing.
pub struct AFrame {
    pub t: f32,
    pub src: Src,
    pub e: Easing,
}

/// The frames produced by the first `n` keyframes: a synthetic 0% frame with the default value
/// and the *default* easing iff the first keyframe seen lies after 0%, then one frame per
/// keyframe that defines the property, in order, each with the easing in force; keyframes that
/// omit the property contribute nothing.
pub open spec fn a_frames<Data: Clone, Value, F: Fn(&Data) -> Option<Value>>(f: F, kfs: Seq<Keyframe<Data>>, de: Easing, n: int) -> Seq<AFrame>
    decreases n
{
    if n <= 0 {
        Seq::empty()
    } else {
        let p = a_frames(f, kfs, de, n - 1);
        let kf = kfs[n - 1];
        let p1 = if p.len() == 0 && fgt(kf.normalized_time, 0.0f32) {
            p.push(AFrame { t: 0.0f32, src: Src::Default, e: de })
        } else {
            p
        };
        if defines(f, kfs, n - 1) {
            p1.push(AFrame { t: kf.normalized_time, src: Src::Key(n - 1), e: easing_in_force(f, kfs, de, n) })
        } else {
            p1
        }
    }
}

/// Master-to-property index map: for each master keyframe the index of the last frame produced
/// so far (0 if none yet).
pub open spec fn a_map<Data: Clone, Value, F: Fn(&Data) -> Option<Value>>(f: F, kfs: Seq<Keyframe<Data>>, de: Easing, n: int) -> Seq<usize>
    decreases n
{
    if n <= 0 {
        Seq::empty()
    } else {
        let len = a_frames(f, kfs, de, n).len();
        a_map(f, kfs, de, n - 1).push((if len >= 1 { len - 1 } else { 0 }) as usize)
    }
}

/// The complete abstract frame list: `a_frames` over all keyframes plus a copy of the last
/// frame at 100% iff the last frame lies before 100%.
pub open spec fn a_frames_final<Data: Clone, Value, F: Fn(&Data) -> Option<Value>>(f: F, kfs: Seq<Keyframe<Data>>, de: Easing) -> Seq<AFrame> {
    let p = a_frames(f, kfs, de, kfs.len() as int);
    if p.len() > 0 && flt(p.last().t, 1.0f32) {
        p.push(AFrame { t: 1.0f32, src: Src::Hold, e: p.last().e })
    } else {
        p
    }
}

/// Concrete frame `c` (at index `j` of `frames`) realises abstract frame `a`.
pub open spec fn frame_matches<Data: Clone, Value: Clone, F: Fn(&Data) -> Option<Value>>(
    f: F, kfs: Seq<Keyframe<Data>>, dv: Value, frames: Seq<SplitKeyframe<Value>>, j: int, a: AFrame,
) -> bool {
    let c = frames[j];
    &&& c.spec_time() == a.t
    &&& c.spec_easing() == a.e
    &&& match a.src {
        Src::Default => cloned(dv, c.spec_value()),
        Src::Key(i) => 0 <= i < kfs.len() && gv(f, &kfs[i].data) == Some(c.spec_value()),
        Src::Hold => j > 0 && cloned(frames[j - 1].spec_value(), c.spec_value()),
    }
}

pub open spec fn frames_match<Data: Clone, Value: Clone, F: Fn(&Data) -> Option<Value>>(
    f: F, kfs: Seq<Keyframe<Data>>, dv: Value, frames: Seq<SplitKeyframe<Value>>, a: Seq<AFrame>,
) -> bool {
    &&& frames.len() == a.len()
    &&& forall|j: int| 0 <= j < a.len() ==> #[trigger] frame_matches(f, kfs, dv, frames, j, a[j])
}

/// View helpers usable in invariants (typed, to avoid inference on fresh Vecs).
pub open spec fn vframes<Value: Clone>(v: &Vec<SplitKeyframe<Value>>) -> Seq<SplitKeyframe<Value>> { v@ }
pub open spec fn vmap(v: &Vec<usize>) -> Seq<usize> { v@ }

// -- lemmas ------------------------------------------------------------------------------------

/// No frames yet means no defining keyframe yet, hence the easing in force is still the default.
pub proof fn lemma_no_frames_default_easing<Data: Clone, Value, F: Fn(&Data) -> Option<Value>>(f: F, kfs: Seq<Keyframe<Data>>, de: Easing, n: int)
    requires 0 <= n <= kfs.len(), a_frames(f, kfs, de, n).len() == 0,
    ensures easing_in_force(f, kfs, de, n) == de, !has_data(f, kfs, n),
    decreases n
{
    if n > 0 {
        lemma_no_frames_default_easing(f, kfs, de, n - 1);
    }
}

/// Some defining keyframe means at least one frame; map entries index into the frame list.
pub proof fn lemma_frames_nonempty_and_map_in_range<Data: Clone, Value, F: Fn(&Data) -> Option<Value>>(f: F, kfs: Seq<Keyframe<Data>>, de: Easing, n: int)
    requires 0 <= n <= kfs.len(),
    ensures
        has_data(f, kfs, n) ==> a_frames(f, kfs, de, n).len() >= 1,
        a_map(f, kfs, de, n).len() == n,
        forall|i: int| 0 <= i < n ==> (#[trigger] a_map(f, kfs, de, n)[i]) < a_frames(f, kfs, de, n).len() || a_frames(f, kfs, de, n).len() == 0,
        forall|i: int| 0 <= i < n ==> (#[trigger] a_map(f, kfs, de, n)[i]) == 0 || (a_map(f, kfs, de, n)[i] as int) < a_frames(f, kfs, de, n).len(),
    decreases n
{
    if n > 0 {
        lemma_frames_nonempty_and_map_in_range(f, kfs, de, n - 1);
        assert(a_frames(f, kfs, de, n - 1).len() <= a_frames(f, kfs, de, n).len());
    }
}

} // verus!
