// ---- specification views of the private fields (closed: contracts of pub fns may use them) ----
impl<Value: Clone> SplitKeyframe<Value> {
    pub closed spec fn spec_time(&self) -> f32 { self.normalized_time }
    pub closed spec fn spec_value(&self) -> Value { self.value }
    pub closed spec fn spec_easing(&self) -> Easing { self.easing }
}

impl<Value: Clone> SubTimeline<Value> {
    pub closed spec fn spec_frames(&self) -> Seq<SplitKeyframe<Value>> { self.frames@ }
    pub closed spec fn spec_map(&self) -> Seq<usize> { self.frame_index_map@ }
    pub closed spec fn spec_override(&self) -> Option<SplitKeyframe<Value>> { self.start_frame_override }
}
