/// `TimeScale` is opaque here; `get_position` is an arbitrary function of (timescale, time) whose
/// result is a valid position (A7: that is route K's proved contract of the real get_position, C03).
#[verifier::external_body]
pub struct TimeScale { _p: u8 }

pub uninterp spec fn spec_position(ts: &TimeScale, time: f32) -> TimeScalePosition;

impl TimeScale {
    #[verifier::external_body]
    pub fn get_position(&self, time: f32) -> (r: TimeScalePosition)
        ensures
            r == spec_position(self, time),
            match r {
                TimeScalePosition::Active(t, _) => pos01(t),
                TimeScalePosition::Ended(t) => pos01(t),
                TimeScalePosition::NotStarted => true,
            },
    { unimplemented!() }
}

/// Master keyframe positions: valid and non-decreasing (the builder sorts them, C11).
pub open spec fn sorted_pos(bt: Seq<f32>) -> bool {
    &&& forall|i: int| 0 <= i < bt.len() ==> pos01(#[trigger] bt[i])
    &&& forall|i: int, j: int| 0 <= i <= j < bt.len() ==> fle(#[trigger] bt[i], #[trigger] bt[j])
}

/// A7 (V-R8): std's documented contract of `slice::binary_search_by` with `total_cmp` on a sorted
/// slice of valid positions.  `total_cmp` Less/Equal implies `<=` for non-NaN values (Kani lemma
/// `total_cmp_order_implies_fle`), hence the non-strict comparisons.  The body is the call the
/// real code makes; it is not verified here (the bounded Kani harnesses execute the real search).
#[verifier::external_body]
pub fn bsearch_total_cmp(s: &[f32], x: f32) -> (r: Result<usize, usize>)
    requires sorted_pos(s@), pos01(x),
    ensures match r {
        Ok(i) => i < s@.len() && fle(s@[i as int], x) && fle(x, s@[i as int]),
        Err(i) => i <= s@.len() && (forall|j: int| 0 <= j < i ==> fle(#[trigger] s@[j], x)) && (forall|j: int| i <= j < s@.len() ==> fle(x, #[trigger] s@[j])),
    }
{ s.binary_search_by(|t| t.total_cmp(&x)) }

/// The value `interpolate_value` produces for a pair of frames at a position: uninterpreted here;
/// its definition (start.lerp(end, start.easing((t - t0)/(t1 - t0))), start value for a
/// zero-length pair) is what route K proves of the real function.
pub uninterp spec fn spec_interpolate<Value: Clone>(p: [&SplitKeyframe<Value>; 2], t: f32) -> Value;

#[verifier::external_body]
fn interpolate_value<Value: Clone + Lerp>(bounding_frames: &[&SplitKeyframe<Value>; 2], time: f32) -> (r: Value)
    ensures r == spec_interpolate(*bounding_frames, time)
{
    unimplemented!()
}

// ---- specification views of the private fields (closed: contracts of pub fns may use them) ----
impl<Value: Clone> SplitKeyframe<Value> {
    pub closed spec fn spec_time(&self) -> f32 { self.normalized_time }
    pub closed spec fn spec_value(&self) -> Value { self.value }
    pub closed spec fn spec_easing(&self) -> Easing { self.easing }
}

impl<Value: Clone> SubTimeline<Value> {
    pub closed spec fn spec_frames(&self) -> Seq<SplitKeyframe<Value>> { self.frames@ }
    pub closed spec fn spec_map(&self) -> Seq<usize> { self.frame_index_map@ }
    pub closed spec fn spec_override(&self) -> Option<SplitKeyframe<Value>> { self.start_frame_override }

    /// Representation invariant (index safety part): either nothing at all, or a non-empty frame
    /// list with every map entry indexing into it; a substituted start frame needs frames.
    pub closed spec fn wf(&self) -> bool {
        &&& (self.frames@.len() == 0 ==> self.frame_index_map@.len() == 0 && self.start_frame_override.is_none())
        &&& forall|i: int| 0 <= i < self.frame_index_map@.len() ==> (#[trigger] self.frame_index_map@[i] as int) < self.frames@.len()
    }

    /// Representation invariant (lookup part): how the frame list and the index map relate to the
    /// master keyframe positions `bt`.  Established by `from_keyframes`, preserved by
    /// `override_start_value`, and sufficient for the O(1) lookup to return the bracketing pair
    /// (`lemma_lookup_brackets`).
    pub closed spec fn linked(&self, bt: Seq<f32>) -> bool {
        let fr = self.frames@;
        let m = self.frame_index_map@;
        fr.len() > 0 ==> {
            &&& m.len() == bt.len()
            &&& m.len() >= 1
            &&& fr.len() >= 2
            &&& forall|j: int| 0 <= j < fr.len() ==> pos01(#[trigger] fr[j].normalized_time)
            &&& is_zero(fr[0].normalized_time)
            &&& is_one(fr[fr.len() - 1].normalized_time)
            &&& forall|i: int| 0 <= i < m.len() ==> ((#[trigger] m[i]) == 0 || fle(fr[m[i] as int].normalized_time, bt[i]))
            &&& forall|i: int, j: int| #![trigger m[i], fr[j]] 0 <= i && i + 1 < m.len() && (m[i] as int) < j < fr.len() ==> fle(bt[i + 1], fr[j].normalized_time)
            &&& forall|j: int| (m[m.len() - 1] as int) < j < fr.len() ==> is_one(#[trigger] fr[j].normalized_time)
            &&& m[0] <= 1
            &&& (self.start_frame_override.is_some() ==> self.start_frame_override.unwrap().normalized_time == fr[0].normalized_time)
        }
    }

    /// C10: frame `index`, with the substituted start frame standing in for index 0 iff enabled.
    pub closed spec fn spec_frame_at(&self, index: int, enable_start_override: bool) -> Option<&SplitKeyframe<Value>> {
        if enable_start_override && index == 0 && self.start_frame_override.is_some() {
            Some(&self.start_frame_override.unwrap())
        } else if 0 <= index < self.frames@.len() {
            Some(&self.frames@[index])
        } else {
            None
        }
    }

    /// The pair of frames the lookup selects for master index `hint` (which two neighbours).
    pub closed spec fn spec_bounding(&self, t: f32, hint: int, enable_start_override: bool) -> Option<[&SplitKeyframe<Value>; 2]> {
        let k = self.frame_index_map@[hint] as int;
        let at = self.spec_frame_at(k, enable_start_override).unwrap();
        if flt(t, at.normalized_time) {
            if k > 0 {
                Some([self.spec_frame_at(k - 1, enable_start_override).unwrap(), at])
            } else {
                None
            }
        } else if k == self.frames@.len() - 1 {
            Some([at, at])
        } else {
            Some([at, &self.frames@[k + 1]])
        }
    }
}

/// Positions of the master keyframes.
pub open spec fn times<Data: Clone>(kfs: Seq<Keyframe<Data>>) -> Seq<f32> {
    Seq::new(kfs.len(), |i: int| kfs[i].normalized_time)
}

/// The relation `prepare_frame` establishes between a position `t` and the master index `hint`
/// it hands to the lookup: keyframe `hint` is at or before `t` and keyframe `hint + 1` (if any)
/// is at or after it; or `t` lies before the first keyframe and `hint == 0`.
pub open spec fn hint_ok(bt: Seq<f32>, hint: int, t: f32) -> bool {
    &&& 0 <= hint < bt.len()
    &&& forall|i: int| 0 <= i < bt.len() ==> pos01(#[trigger] bt[i])
    &&& forall|i: int, j: int| 0 <= i <= j < bt.len() ==> fle(#[trigger] bt[i], #[trigger] bt[j])
    &&& ((fle(bt[hint], t) && (hint + 1 < bt.len() ==> fle(t, bt[hint + 1]))) || (hint == 0 && flt(t, bt[0])))
}

/// `p` is (frame k, frame k+1) - or (last, last) - with the start override standing in for frame 0.
pub open spec fn pair_at<Value: Clone>(s: &SubTimeline<Value>, p: [&SplitKeyframe<Value>; 2], k: int, flag: bool) -> bool {
    &&& 0 <= k < s.spec_frames().len()
    &&& Some(p[0]) == s.spec_frame_at(k, flag)
    &&& (Some(p[1]) == s.spec_frame_at(k + 1, flag) || (k == s.spec_frames().len() - 1 && p[1] == p[0]))
}

/// C01 (which neighbours): for a well-formed, linked sub-timeline the lookup returns a pair of
/// *consecutive* frames (or the last frame twice) that bracket the position:
/// `first.t <= t <= second.t`; frame 0 is replaced by the substituted start frame iff enabled.
pub proof fn lemma_lookup_brackets<Value: Clone>(s: &SubTimeline<Value>, bt: Seq<f32>, t: f32, hint: int, flag: bool)
    requires
        s.wf(),
        s.linked(bt),
        s.spec_frames().len() > 0,
        pos01(t),
        hint_ok(bt, hint, t),
    ensures
        s.spec_bounding(t, hint, flag).is_some(),
        ({
            let p = s.spec_bounding(t, hint, flag).unwrap();
            &&& fle(p[0].spec_time(), t)
            &&& fle(t, p[1].spec_time())
            &&& exists|k: int| #[trigger] pair_at(s, p, k, flag)
        }),
{
    broadcast use axiom_fle_refl;
    let fr = s.frames@;
    let m = s.frame_index_map@;
    let k = m[hint] as int;
    assert(0 <= k < fr.len());
    let at = s.spec_frame_at(k, flag).unwrap();
    assert(at.normalized_time == fr[k].normalized_time);
    assert(pos01(fr[k].normalized_time));
    assert(pos01(fr[0].normalized_time));
    if flt(t, at.normalized_time) {
        // t is strictly before the mapped frame: only possible before the first keyframe
        if fle(bt[hint], t) && (hint + 1 < bt.len() ==> fle(t, bt[hint + 1])) {
            if k == 0 {
                axiom_zero_least(fr[0].normalized_time, t);
            } else {
                axiom_fle_trans(fr[k].normalized_time, bt[hint], t);
            }
            assert(false);
        }
        assert(hint == 0 && flt(t, bt[0]));
        if k == 0 {
            axiom_zero_least(fr[0].normalized_time, t);
            assert(false);
        }
        assert(k == 1);
        let prev = s.spec_frame_at(0, flag).unwrap();
        assert(prev.normalized_time == fr[0].normalized_time);
        axiom_zero_least(fr[0].normalized_time, t);
        axiom_flt_implies_fle(t, at.normalized_time);
        let p = s.spec_bounding(t, hint, flag).unwrap();
        assert(pair_at(s, p, 0, flag));
    } else if k == fr.len() - 1 {
        axiom_one_greatest(t, fr[k].normalized_time);
        let p = s.spec_bounding(t, hint, flag).unwrap();
        assert(pair_at(s, p, k, flag));
    } else {
        let nx = fr[k + 1];
        assert(pos01(nx.normalized_time));
        if hint + 1 < bt.len() {
            assert(fle(bt[hint + 1], fr[k + 1].normalized_time));
            if fle(bt[hint], t) && fle(t, bt[hint + 1]) {
                axiom_fle_trans(t, bt[hint + 1], nx.normalized_time);
            } else {
                assert(hint == 0 && flt(t, bt[0]));
                axiom_flt_implies_fle(t, bt[0]);
                assert(fle(bt[0], bt[1]));
                axiom_fle_trans(t, bt[0], bt[1]);
                axiom_fle_trans(t, bt[1], nx.normalized_time);
            }
        } else {
            assert(is_one(fr[k + 1].normalized_time));
            axiom_one_greatest(t, nx.normalized_time);
        }
        let p = s.spec_bounding(t, hint, flag).unwrap();
        assert(pair_at(s, p, k, flag));
    }
}
