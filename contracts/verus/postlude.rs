// ---- specification views of the private fields (closed: contracts of pub fns may use them) ----
impl<Value: Clone> SplitKeyframe<Value> {
    pub closed spec fn spec_time(&self) -> f32 { self.normalized_time }
    pub closed spec fn spec_value(&self) -> Value { self.value }
    pub closed spec fn spec_easing(&self) -> Easing { self.easing }
}

impl<Value: Clone> SubTimeline<Value> {
    pub closed spec fn spec_frames(&self) -> Seq<SplitKeyframe<Value>> { self.frames@ }
    pub closed spec fn spec_map(&self) -> Seq<usize> { self.frame_index_map@ }
    pub closed spec fn spec_override(&self) -> Option<SplitKeyframe<Value>> { self.start_frame_override }

    /// Representation invariant (index safety part): either nothing at all, or a non-empty frame
    /// list with every map entry indexing into it; a substituted start frame needs frames.
    pub closed spec fn wf(&self) -> bool {
        &&& (self.frames@.len() == 0 ==> self.frame_index_map@.len() == 0 && self.start_frame_override.is_none())
        &&& forall|i: int| 0 <= i < self.frame_index_map@.len() ==> (#[trigger] self.frame_index_map@[i] as int) < self.frames@.len()
    }

    /// C10: frame `index`, with the substituted start frame standing in for index 0 iff enabled.
    pub closed spec fn spec_frame_at(&self, index: int, enable_start_override: bool) -> Option<&SplitKeyframe<Value>> {
        if enable_start_override && index == 0 && self.start_frame_override.is_some() {
            Some(&self.start_frame_override.unwrap())
        } else if 0 <= index < self.frames@.len() {
            Some(&self.frames@[index])
        } else {
            None
        }
    }

    /// The pair of frames the lookup selects for master index `hint` (which two neighbours).
    pub closed spec fn spec_bounding(&self, t: f32, hint: int, enable_start_override: bool) -> Option<[&SplitKeyframe<Value>; 2]> {
        let k = self.frame_index_map@[hint] as int;
        let at = self.spec_frame_at(k, enable_start_override).unwrap();
        if flt(t, at.normalized_time) {
            if k > 0 {
                Some([self.spec_frame_at(k - 1, enable_start_override).unwrap(), at])
            } else {
                None
            }
        } else if k == self.frames@.len() - 1 {
            Some([at, at])
        } else {
            Some([at, &self.frames@[k + 1]])
        }
    }
}
