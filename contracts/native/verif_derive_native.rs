//! Small-scope native search on the REAL `#[derive(Animate)]` output (bounded; DESIGN.md 8.13).
//! Copied to tests/verif_derive_native.rs of a scratch copy and run with plain `cargo test`:
//! no Kani, no stubs - rustc expands the real macro and the real callees run.
//!
//! Purpose: a concrete failing input for a failed L-GEN obligation.  The L-GEN proofs replace the
//! callees by scripted stubs, so Kani's counterexample for them cannot be replayed natively; this
//! search runs the generated `update` / `start_with` / accessors against an oracle assembled from
//! the PUBLIC mina_core pieces the generated code is documented to delegate to
//! (`SubTimeline::from_keyframes`, `override_start_value`, `value_at`, `prepare_frame`, `TimeScale`),
//! written from the property text (C17/C08/C09/C10): per animated field, assign iff the field's own
//! sub-timeline has a value at the prepared frame; everything else untouched.
//!
//! Scope: struct with two animated f32 fields + one animated u8 + one excluded field; every
//! keyframe list with N <= 3 distinct positions from {0, 1/2, 1} in every insertion order
//! (unsorted lists included), every subset of fields defined per keyframe, delay in
//! {0, 1}, repeat in {None, Times(2), Infinite}, reverse in {false, true}, with/without start_with,
//! times on a 1/4 grid from -0.5 to 7.
#![allow(dead_code)]

use mina::prelude::*;
use mina_core::time_scale::TimeScale;
use mina_core::timeline::{prepare_frame, Keyframe};
use mina_core::timeline_helpers::SubTimeline;

#[derive(Animate, Clone, Debug, Default, PartialEq)]
struct Mixed {
    #[animate]
    a: f32,
    #[animate]
    b: f32,
    tag: i32,
    #[animate]
    n: u8,
}

#[derive(Clone, Copy, Debug)]
struct Kf {
    pos: f32,
    a: Option<f32>,
    b: Option<f32>,
    n: Option<u8>,
}

const POS: [f32; 3] = [0.0, 0.5, 1.0];

fn oracle_field<V: Clone + mina::Lerp>(sorted: &[Kf], get: impl Fn(&Kf) -> Option<V>, default: V, start: Option<V>, pf: Option<(f32, usize, bool)>) -> Option<V> {
    let kfs: Vec<Keyframe<Kf>> = sorted.iter().map(|k| Keyframe::new(k.pos, *k, None)).collect();
    let mut sub = SubTimeline::from_keyframes(&kfs, default, |k: &Kf| get(k), Easing::default());
    if let Some(s) = start {
        sub.override_start_value(s);
    }
    let (nt, idx, flag) = pf?;
    sub.value_at(nt, idx, flag)
}

#[test]
fn derive_small_scope_search() {
    let mut timelines = 0u64;
    let mut updates = 0u64;
    for n in 0..=3usize {
        // positions: every sequence (not only sorted ones: the builder sorts)
        let seqs = 3usize.pow(n as u32);
        for pcode in 0..seqs {
            for dcode in 0..(8usize.pow(n as u32)) {
                let mut kfs = Vec::new();
                let (mut pc, mut dc) = (pcode, dcode);
                for i in 0..n {
                    let pos = POS[pc % 3];
                    pc /= 3;
                    let m = dc % 8;
                    dc /= 8;
                    kfs.push(Kf {
                        pos,
                        a: if m & 1 != 0 { Some(10.0 + i as f32) } else { None },
                        b: if m & 2 != 0 { Some(-20.0 - i as f32) } else { None },
                        n: if m & 4 != 0 { Some(100 + 10 * i as u8) } else { None },
                    });
                }
                // C11 speaks of distinct positions: the relative order of keyframes sharing a position is not specified
                if (0..n).any(|i| (0..i).any(|j| kfs[i].pos == kfs[j].pos)) {
                    continue;
                }
                for (delay, repeat, reverse) in [
                    (0.0f32, Repeat::None, false),
                    (1.0, Repeat::None, false),
                    (1.0, Repeat::Times(2), true),
                    (0.0, Repeat::Infinite, false),
                    (1.0, Repeat::Times(2), false),
                    (0.0, Repeat::None, true),
                ] {
                    let duration = 2.0f32;
                    let mut b = Mixed::timeline().duration_seconds(duration).delay_seconds(delay).repeat(repeat).reverse(reverse);
                    for k in &kfs {
                        let mut kb = Mixed::keyframe(k.pos);
                        if let Some(v) = k.a {
                            kb = kb.a(v);
                        }
                        if let Some(v) = k.b {
                            kb = kb.b(v);
                        }
                        if let Some(v) = k.n {
                            kb = kb.n(v);
                        }
                        b = b.keyframe(kb);
                    }
                    let tl0 = b.build();
                    timelines += 1;
                    // stable sort by position = what C11 promises the builder does
                    let mut sorted = kfs.clone();
                    sorted.sort_by(|x, y| x.pos.total_cmp(&y.pos));
                    let bt: Vec<f32> = sorted.iter().map(|k| k.pos).collect();
                    let ts = TimeScale::new(duration, delay, repeat, reverse);
                    for with_start in [false, true] {
                        let start = Mixed { a: 7.0, b: 8.0, tag: 5, n: 9 };
                        let mut tl = tl0.clone();
                        if with_start {
                            tl.start_with(&start);
                        }
                        for ti in -2i32..=28 {
                            let time = ti as f32 / 4.0;
                            let before = Mixed { a: -1.5, b: -2.5, tag: 42, n: 3 };
                            let mut target = before.clone();
                            tl.update(&mut target, time);
                            updates += 1;
                            let pf = prepare_frame(time, &bt, &ts);
                            let ea = oracle_field(&sorted, |k| k.a, f32::default(), with_start.then_some(start.a), pf);
                            let eb = oracle_field(&sorted, |k| k.b, f32::default(), with_start.then_some(start.b), pf);
                            let en = oracle_field(&sorted, |k| k.n, u8::default(), with_start.then_some(start.n), pf);
                            let expect = Mixed { a: ea.unwrap_or(before.a), b: eb.unwrap_or(before.b), tag: before.tag, n: en.unwrap_or(before.n) };
                            assert!(
                                target == expect,
                                "generated update disagrees with the specification\n  keyframes (insertion order) = {:?}\n  duration = {} delay = {} repeat = {:?} reverse = {} start_with = {} time = {}\n  target before = {:?}\n  expected after = {:?}\n  got = {:?}",
                                kfs, duration, delay, repeat, reverse, with_start, time, before, expect, target
                            );
                        }
                    }
                    // accessors delegate to the timescale
                    assert!(
                        tl0.delay() == ts.get_delay() && tl0.duration() == ts.get_duration() && tl0.repeat() == ts.get_repeat() && tl0.cycle_duration() == Some(ts.get_cycle_duration()),
                        "generated accessors disagree with the TimeScale\n  duration = {} delay = {} repeat = {:?} reverse = {}\n  got delay {} duration {} repeat {:?} cycle {:?}",
                        duration, delay, repeat, reverse, tl0.delay(), tl0.duration(), tl0.repeat(), tl0.cycle_duration()
                    );
                }
            }
        }
    }
    println!("derive small-scope search: {} timelines, {} updates, no disagreement", timelines, updates);
}
