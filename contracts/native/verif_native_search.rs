//! Small-scope native search on the REAL `SubTimeline` (DESIGN.md section 4): every keyframe list
//! with N <= 4 keyframes over the position grid {0, 1/4, 1/2, 3/4, 1} (non-decreasing, repeats
//! allowed), every subset of defining keyframes, every easing-override pattern, compared with an
//! executable twin of the specification written from the property text (not from the code):
//!   * the frame list / index map `from_keyframes` builds (C01, C08),
//!   * `value_at` for every admissible (hint, position, flag), with and without a substituted
//!     start value (C01, C02, C08, C10).
//! The lookups use ONLY the public API (`from_keyframes`, `override_start_value`, `value_at`,
//! `Clone`), so this file keeps compiling when private fields are renamed or restructured; the
//! comparison of the private frame list / index map lives in verif_native_structure.rs.
//! Bounded (labelled so), used (a) to find a concrete failing input when a Verus obligation fails
//! or the extracted text no longer type-checks, (b) in the thorough tier as a cross-check of the
//! specification twin itself.  Child module of `timeline_helpers` (reads the private fields).

use super::*;
use crate::timeline::Keyframe;

#[derive(Clone, Debug)]
struct TagEasing(f32);
impl EasingFunction for TagEasing {
    fn calc(&self, x: f32) -> f32 {
        // distinguishable, monotone, fixes 0 and 1: x^(tag)
        if self.0 == 1.0 {
            x
        } else if self.0 == 2.0 {
            x * x
        } else {
            x * x * x
        }
    }
}
fn tag(t: f32) -> Easing {
    Easing::Custom(Box::new(TagEasing(t)))
}
fn tag_of(e: &Easing) -> f32 {
    // identify by the value at 1/2: 0.5, 0.25, 0.125
    let y = e.calc(0.5);
    if y == 0.5 {
        1.0
    } else if y == 0.25 {
        2.0
    } else {
        3.0
    }
}
fn ease(tagv: f32, x: f32) -> f32 {
    TagEasing(tagv).calc(x)
}

#[derive(Clone, Debug)]
pub(super) struct D {
    pub(super) v: Option<f32>,
}

/// Specification twin: (position, value, easing tag) frames + index map, from the statement.
fn spec(kfs: &[(f32, Option<f32>, Option<f32>)], default_value: f32, default_tag: f32) -> (Vec<(f32, f32, f32)>, Vec<usize>) {
    let defining: Vec<usize> = (0..kfs.len()).filter(|&i| kfs[i].1.is_some()).collect();
    if defining.is_empty() {
        return (vec![], vec![]);
    }
    let mut frames = Vec::new();
    // "If no keyframe defines the property at 0% the first segment starts from the property
    // type's default value at 0% (with the timeline default easing)"
    let first = defining[0];
    // the synthetic 0% frame exists iff some keyframe at or before the first defining one lies after 0%
    let lead = (0..=first).any(|i| kfs[i].0 > 0.0);
    if lead {
        frames.push((0.0, default_value, default_tag));
    }
    // "the latest easing given on a keyframe defining that property, otherwise the default"
    let mut cur = default_tag;
    for &i in &defining {
        if let Some(t) = kfs[i].2 {
            cur = t;
        }
        frames.push((kfs[i].0, kfs[i].1.unwrap(), cur));
    }
    // "if none defines it at 100% the last defined value is held until the end"
    let last = *frames.last().unwrap();
    if last.0 < 1.0 {
        frames.push((1.0, last.1, last.2));
    }
    // master-to-property map: index of the last frame produced by keyframes 0..=i (0 if none yet);
    // the synthetic 0% frame is produced by the first keyframe that lies after 0%
    let mut map = Vec::new();
    for i in 0..kfs.len() {
        let lead_i = lead && (0..=i.min(first)).any(|j| kfs[j].0 > 0.0);
        let defs = defining.iter().filter(|&&d| d <= i).count();
        let produced = lead_i as usize + defs;
        map.push(produced.max(1) - 1);
    }
    (frames, map)
}

fn interp(a: (f32, f32, f32), b: (f32, f32, f32), t: f32) -> f32 {
    let d = b.0 - a.0;
    if d == 0.0 {
        return a.1;
    }
    let x = (t - a.0) / d;
    a.1.lerp(&b.1, ease(a.2, x))
}

fn hint_ok(bt: &[f32], hint: usize, t: f32) -> bool {
    hint < bt.len() && ((bt[hint] <= t && (hint + 1 >= bt.len() || t <= bt[hint + 1])) || (hint == 0 && t < bt[0]))
}

const GRID: [f32; 5] = [0.0, 0.25, 0.5, 0.75, 1.0];

fn positions(n: usize) -> Vec<Vec<f32>> {
    // non-decreasing sequences of length n over GRID
    fn rec(n: usize, from: usize, cur: &mut Vec<f32>, out: &mut Vec<Vec<f32>>) {
        if cur.len() == n {
            out.push(cur.clone());
            return;
        }
        for g in from..GRID.len() {
            cur.push(GRID[g]);
            rec(n, g, cur, out);
            cur.pop();
        }
    }
    let mut out = Vec::new();
    rec(n, 0, &mut Vec::new(), &mut out);
    out
}

#[test]
fn small_scope_search() {
    let default_value = -1.0f32;
    let mut lists = 0u64;
    let mut lookups = 0u64;
    for n in 0..=4usize {
        for pos in positions(n) {
            for def_mask in 0..(1u32 << n) {
                for ease_code in 0..(3u32.pow(n as u32)) {
                    // easing per keyframe: 0 none, 1 tag 2.0, 2 tag 3.0
                    let mut kfs = Vec::new();
                    let mut ec = ease_code;
                    for i in 0..n {
                        let e = match ec % 3 {
                            0 => None,
                            1 => Some(2.0),
                            _ => Some(3.0),
                        };
                        ec /= 3;
                        let v = if def_mask & (1 << i) != 0 { Some(10.0 * (i as f32 + 1.0)) } else { None };
                        kfs.push((pos[i], v, e));
                    }
                    let real_kfs: Vec<Keyframe<D>> = kfs.iter().map(|k| Keyframe::new(k.0, D { v: k.1 }, k.2.map(tag))).collect();
                    let sub = SubTimeline::from_keyframes(&real_kfs, default_value, |d: &D| d.v, tag(1.0));
                    let (frames, map) = spec(&kfs, default_value, 1.0);
                    lists += 1;
                    // -- lookups
                    let bt: Vec<f32> = pos.clone();
                    for ov_mode in 0..3u8 {
                        // 0: no substituted start value; 1: one override_start_value; 2: two in a row (the
                        // latest must fully replace the earlier one, C09), applied to a clone (C09: clones agree)
                        let with_override = ov_mode > 0;
                        let mut s2 = sub.clone();
                        let ov = 77.0f32;
                        if ov_mode == 2 {
                            s2.override_start_value(33.0);
                        }
                        if with_override {
                            s2.override_start_value(ov);
                        }
                        for flag in [false, true] {
                            for ti in -2i32..=18 {
                                let t = ti as f32 / 16.0;
                                let tc = t.clamp(0.0, 1.0);
                                for hint in 0..n.max(1) {
                                    if n > 0 && !hint_ok(&bt, hint, tc) {
                                        continue;
                                    }
                                    let got = s2.value_at(t, hint, flag);
                                    lookups += 1;
                                    if frames.is_empty() {
                                        assert!(got.is_none(), "value_at on an unused property returned {:?}; keyframes = {:?}", got, kfs);
                                        continue;
                                    }
                                    // admissible results: every consecutive pair bracketing tc, with frame 0 replaced
                                    // by the substituted start frame iff enabled
                                    let fr = |k: usize| -> (f32, f32, f32) {
                                        if k == 0 && flag && with_override {
                                            (frames[0].0, ov, frames[0].2)
                                        } else {
                                            frames[k]
                                        }
                                    };
                                    let mut admissible = Vec::new();
                                    for k in 0..frames.len() - 1 {
                                        if fr(k).0 <= tc && tc <= fr(k + 1).0 {
                                            admissible.push(interp(fr(k), fr(k + 1), tc));
                                        }
                                    }
                                    if tc >= frames[frames.len() - 1].0 {
                                        admissible.push(fr(frames.len() - 1).1);
                                    }
                                    let ok = match got {
                                        Some(v) => admissible.iter().any(|a| *a == v),
                                        None => false,
                                    };
                                    assert!(
                                        ok,
                                        "value_at disagrees with the specification\n  keyframes (pos, value, easing tag) = {:?}\n  start override mode = {} (0 none, 1 once, 2 twice) flag = {} t = {} hint = {}\n  frames = {:?}\n  admissible = {:?}\n  got = {:?}",
                                        kfs, ov_mode, flag, t, hint, frames, admissible, got
                                    );
                                }
                            }
                        }
                    }
                }
            }
        }
    }
    println!("small-scope search: {} keyframe lists, {} lookups, no disagreement", lists, lookups);
}

// re-exports for the structure half
pub(super) fn positions_pub(n: usize) -> Vec<Vec<f32>> {
    positions(n)
}
pub(super) fn spec_pub(kfs: &[(f32, Option<f32>, Option<f32>)], default_value: f32, default_tag: f32) -> (Vec<(f32, f32, f32)>, Vec<usize>) {
    spec(kfs, default_value, default_tag)
}
pub(super) fn tag_pub(t: f32) -> Easing {
    tag(t)
}
pub(super) fn tag_of_pub(e: &Easing) -> f32 {
    tag_of(e)
}
