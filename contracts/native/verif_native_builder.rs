//! Small-scope native search on the REAL `TimelineBuilderArguments::from` (bounded; C11).
//! Child module of `timeline` (reads the pub(super) keyframe fields), run with plain `cargo test`.
//! Stands in when the Kani harnesses `builder_args_n*` come back undecided (e.g. a hand-written
//! sort CBMC cannot unwind) and gives a concrete failing insertion order.
//!
//! Scope: every insertion order of n <= 8 keyframes whose positions are a multiset over
//! {0, 1/8, .., 1} of the shapes "all distinct" and "one repeated pair"; n = 9, 10, 12, 16:
//! every rotation, the reversal, and 20000 pseudo-random permutations each (fixed seed).
//! Oracle (from the property text): keyframes come out ordered by position, boundary_times[i]
//! is keyframe i's position, the multiset of (position, tag) is unchanged.  (The property speaks of
//! distinct positions; for a repeated position any relative order of the two is accepted.)
use super::*;

#[derive(Clone, Debug)]
struct TagBuilder {
    t: f32,
    tag: u32,
}
impl KeyframeBuilder for TagBuilder {
    type Data = u32;
    fn build(&self) -> Keyframe<u32> {
        Keyframe::new(self.t, self.tag, None)
    }
    fn easing(self, _easing: Easing) -> Self {
        self
    }
}

fn check(order: &[(f32, u32)]) {
    let mut cfg: TimelineConfiguration<u32> = TimelineConfiguration::default();
    for &(t, tag) in order {
        cfg = cfg.keyframe(TagBuilder { t, tag });
    }
    let args = TimelineBuilderArguments::from(cfg);
    let mut expect: Vec<(f32, u32)> = order.to_vec();
    expect.sort_by(|a, b| a.0.total_cmp(&b.0).then(a.1.cmp(&b.1)));
    let got: Vec<(f32, u32)> = args.keyframes.iter().map(|k| (k.normalized_time, k.data)).collect();
    let mut got_canon = got.clone();
    got_canon.sort_by(|a, b| a.0.total_cmp(&b.0).then(a.1.cmp(&b.1)));
    let positions: Vec<f32> = expect.iter().map(|e| e.0).collect();
    assert!(
        got_canon == expect && got.iter().map(|e| e.0).collect::<Vec<_>>() == positions && args.boundary_times == positions,
        "builder arguments disagree with the specification\n  keyframes (position, tag) in insertion order = {:?}\n  expected sorted keyframes = {:?}\n  got keyframes = {:?}\n  got boundary_times = {:?}",
        order, expect, got, args.boundary_times
    );
}

fn permute(items: &mut Vec<(f32, u32)>, k: usize, count: &mut u64) {
    if k == items.len() {
        check(items);
        *count += 1;
        return;
    }
    for i in k..items.len() {
        items.swap(k, i);
        permute(items, k + 1, count);
        items.swap(k, i);
    }
}

#[test]
fn builder_order_search() {
    let mut count = 0u64;
    for n in 0..=8usize {
        // all distinct
        let mut items: Vec<(f32, u32)> = (0..n).map(|i| (i as f32 / 8.0, i as u32)).collect();
        permute(&mut items, 0, &mut count);
        // one repeated position
        if n >= 2 && n <= 7 {
            let mut items: Vec<(f32, u32)> = (0..n).map(|i| ((i.max(1) - 1) as f32 / 8.0, i as u32)).collect();
            permute(&mut items, 0, &mut count);
        }
    }
    let mut seed = 0x2545F4914F6CDD1Du64;
    let mut next = move || {
        seed ^= seed << 13;
        seed ^= seed >> 7;
        seed ^= seed << 17;
        seed
    };
    for n in [9usize, 10, 12, 16] {
        let base: Vec<(f32, u32)> = (0..n).map(|i| (i as f32 / n as f32, i as u32)).collect();
        for r in 0..n {
            let mut v = base.clone();
            v.rotate_left(r);
            check(&v);
            v.reverse();
            check(&v);
            count += 2;
        }
        for _ in 0..20000 {
            let mut v = base.clone();
            for i in (1..n).rev() {
                let j = (next() % (i as u64 + 1)) as usize;
                v.swap(i, j);
            }
            check(&v);
            count += 1;
        }
    }
    println!("builder order search: {} insertion orders, no disagreement", count);
}

/// C01 / C17 (not C11): their quantifier includes REPEATED positions, and "consecutive keyframes"
/// then needs an order among keyframes sharing a position; the only order a user controls is the
/// order they were added in (the `jump` idiom: two keyframes at the same position, old value then
/// new value).  So for these two properties the builder must keep insertion order among equal
/// positions.  Scope: 2..=96 keyframes, positions on a 1/8 grid (many repeats), 300 pseudo-random
/// insertion orders per size (fixed seed) - std's unstable sort only starts reordering equal
/// elements above its small-sort threshold, far beyond what the Kani harnesses can unwind.
fn check_stable(order: &[(f32, u32)]) {
    let mut cfg: TimelineConfiguration<u32> = TimelineConfiguration::default();
    for &(t, tag) in order {
        cfg = cfg.keyframe(TagBuilder { t, tag });
    }
    let args = TimelineBuilderArguments::from(cfg);
    let mut expect: Vec<(f32, u32)> = order.to_vec();
    expect.sort_by(|a, b| a.0.total_cmp(&b.0)); // stable
    let got: Vec<(f32, u32)> = args.keyframes.iter().map(|k| (k.normalized_time, k.data)).collect();
    assert!(
        got == expect,
        "keyframes sharing a position did not keep the order they were added in\n  {} keyframes (position, tag = insertion index) in insertion order = {:?}\n  expected (stable by position) = {:?}\n  got = {:?}",
        order.len(), order, expect, got
    );
}

#[test]
fn builder_stable_search() {
    let mut seed = 0x2545F4914F6CDD1Du64;
    let mut next = move || {
        seed ^= seed << 13;
        seed ^= seed >> 7;
        seed ^= seed << 17;
        seed
    };
    let mut count = 0u64;
    for n in 2..=96usize {
        for _ in 0..300 {
            let v: Vec<(f32, u32)> = (0..n).map(|i| ((next() % 9) as f32 / 8.0, i as u32)).collect();
            check_stable(&v);
            count += 1;
        }
    }
    println!("builder stable-order search: {} insertion orders, no disagreement", count);
}

