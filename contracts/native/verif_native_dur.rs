//! Cross-check of assumption A4' on the REAL `std::time::Duration::as_secs_f32` (native execution).
//! The Kani harness for monotonicity (`verif_dur::std_as_secs_f32_facts`) did not return in 3000 s with
//! Kissat or cvc5; `dur_add_monotone` (float addition is monotone on the domain, integer seconds exact)
//! is proved by Kani.  The two remaining pieces are checked here:
//!   * `frac(n) = n as f32 / 1e9` is monotone with values in [0,1]: EXHAUSTIVE over all 10^9 nanosecond
//!     counts (complete by enumeration);
//!   * `as_secs_f32(s, n) == s as f32 + frac(n)` (std's definition) and monotone across neighbours: every
//!     s < 2^23 with n in {0, 1, 499_999_999, 999_999_999} and 2 pseudo-random n (sampled, not complete).
use std::time::Duration;

fn frac(n: u32) -> f32 {
    (n as f32) / (1_000_000_000u32 as f32)
}

#[test]
fn dur_search() {
    let mut prev = frac(0);
    assert!(prev == 0.0);
    for n in 1..1_000_000_000u32 {
        let f = frac(n);
        assert!(prev <= f && f <= 1.0, "frac not monotone / out of range at n = {}: {} then {}", n, prev, f);
        prev = f;
    }
    let mut seed = 0xA0761D6478BD642Fu64;
    let mut next = move || {
        seed ^= seed << 13;
        seed ^= seed >> 7;
        seed ^= seed << 17;
        seed
    };
    let mut samples = 0u64;
    let mut last = 0.0f32;
    for s in 0..(1u64 << 23) {
        let mut ns = [0u32, 1, (next() % 499_999_998) as u32 + 1, 499_999_999, (next() % 499_999_999) as u32 + 500_000_000, 999_999_999];
        ns.sort();
        for n in ns {
            let v = Duration::new(s, n).as_secs_f32();
            assert!(v == (s as f32) + frac(n), "as_secs_f32({}, {}) = {} is not s as f32 + n as f32 / 1e9", s, n, v);
            assert!(last <= v && v.is_finite(), "as_secs_f32 not monotone at ({}, {}): {} after {}", s, n, v, last);
            last = v;
            samples += 1;
        }
    }
    println!("duration search: 1000000000 nanosecond counts (exhaustive), {} (secs, nanos) samples, no disagreement", samples);
}
