// Native multi-frame simulation of the EXTRACTED `animate` loop body with REAL mina timelines
// (bounded; C18).  Appended to the extracted crate's lib.rs as a #[cfg(test)] module; `mina` is a
// dev-dependency by path to the scratch copy of the repository, so `cargo kani` (no --tests) still
// builds the crate std-only.  Covers the multi-frame sentences of C18 that the one-step Kani
// contracts carry only by an induction argued in DESIGN.md 8.6, with real `Duration::as_secs_f32`
// (no A4' abstraction), and gives concrete frame schedules for failures.
//
// Scope: timelines delay in {0, 0.1, 0.7} x cycle in {0.1, 0.3, 0.9, 1.0} x repeat in {None, Times(2),
// Times(5), Infinite} x reverse; frame schedules: constant 1/60, 0.05, 0.1, 0.3, 5.0 s; each of those
// with a zero-length frame every 3rd frame; 40 pseudo-random schedules over {0, 1e-6, 1/60, 0.1, 0.35, 7.0}
// (fixed seed); with a disable/enable window; up to 4000 frames or 5 frames past Ended.
#[cfg(test)]
mod native_frames {
    use super::*;
    use mina::prelude::*;
    use std::time::Duration;

    #[derive(Animate, Clone, Debug, Default, PartialEq)]
    struct Style {
        x: f32,
        n: u8,
    }
    impl Component for Style {}

    #[derive(Clone)]
    struct Real(StyleTimeline);
    impl SafeTimeline for Real {
        type Target = Style;
        fn delay(&self) -> f32 {
            self.0.delay()
        }
        fn duration(&self) -> f32 {
            self.0.duration()
        }
        fn start_with(&mut self, values: &Style) {
            self.0.start_with(values)
        }
        fn update(&self, values: &mut Style, time: f32) {
            self.0.update(values, time)
        }
        fn box_clone(&self) -> Box<dyn SafeTimeline<Target = Style>> {
            Box::new(self.clone())
        }
    }

    fn ord(s: AnimationState) -> u8 {
        match s {
            AnimationState::None => 0,
            AnimationState::Waiting => 1,
            AnimationState::Playing => 2,
            AnimationState::Ended => 3,
        }
    }

    fn run(delay: f32, cycle: f32, repeat: Repeat, reverse: bool, schedule: &[f32], disable_at: Option<usize>, what: &str) -> u64 {
        let tl = Real(
            Style::timeline()
                .duration_seconds(cycle)
                .delay_seconds(delay)
                .repeat(repeat)
                .reverse(reverse)
                .keyframe(Style::keyframe(0.0).x(1.0).n(10))
                .keyframe(Style::keyframe(0.4).x(5.0).n(200))
                .keyframe(Style::keyframe(1.0).x(3.0).n(100))
                .build(),
        );
        let (tdelay, tdur) = (tl.delay(), tl.duration());
        let mut terminal = Style { x: -7.0, n: 77 };
        if tdur.is_finite() {
            tl.update(&mut terminal, tdur + 1000.0);
        }
        let e = Entity(3);
        let mut animator: Animator<Style> = Animator::with_timeline(tl.clone());
        let mut targets = Targets { entity: e, present: true, value: Style { x: -7.0, n: 77 } };
        let mut events = Events::new();
        let mut expected_pos = Duration::ZERO;
        let mut ended_events = 0u32;
        let mut frames_since_ended = 0;
        let mut frames = 0u64;
        let ctx = |i: usize, a: &Animator<Style>, v: &Style| {
            format!("timeline: delay {} cycle {} repeat {:?} reverse {} (delay() = {}, duration() = {})\n  schedule {} frame #{} (deltas so far: {:?})\n  animator: state {:?} position {:?}\n  component: {:?}",
                delay, cycle, repeat, reverse, tdelay, tdur, what, i, &schedule[..=i.min(schedule.len() - 1)].iter().rev().take(6).rev().collect::<Vec<_>>(), a.state, a.timeline_position, v)
        };
        for (i, &dt) in schedule.iter().enumerate() {
            let disabled = disable_at.map_or(false, |d| i >= d && i < d + 3);
            animator.enabled = !disabled;
            let before_state = animator.state;
            let before_pos = animator.timeline_position;
            let before_val = targets.value.clone();
            let before_events = events.count;
            let time = Time { delta: Duration::from_secs_f32(dt) };
            animate_step(e, &mut animator, &time, &mut targets, &mut events);
            frames += 1;
            if disabled {
                assert!(animator.state == before_state && animator.timeline_position == before_pos && targets.value == before_val && events.count == before_events,
                    "a disabled animator changed something\n  {}", ctx(i, &animator, &targets.value));
                continue;
            }
            // state only moves forward
            assert!(ord(animator.state) >= ord(before_state), "state moved backwards from {:?}\n  {}", before_state, ctx(i, &animator, &targets.value));
            // position grows by exactly the frame's delta while not ended, and not at all once ended
            if animator.state != AnimationState::Ended {
                expected_pos += time.delta;
            }
            assert!(animator.timeline_position == expected_pos, "position is not the sum of the frame deltas (expected {:?})\n  {}", expected_pos, ctx(i, &animator, &targets.value));
            let pos_before_secs = before_pos.as_secs_f32();
            // Waiting only while the position is before the delay
            if animator.state == AnimationState::Waiting {
                assert!(pos_before_secs < tdelay, "Waiting although the position reached the delay\n  {}", ctx(i, &animator, &targets.value));
            }
            // Ended no later than one frame after the position reached the duration, and never before
            if pos_before_secs >= tdur {
                assert!(animator.state == AnimationState::Ended, "position reached the duration but the animator is not Ended\n  {}", ctx(i, &animator, &targets.value));
            }
            if animator.state == AnimationState::Ended && before_state != AnimationState::Ended {
                assert!(pos_before_secs >= tdur, "Ended before the position reached the duration\n  {}", ctx(i, &animator, &targets.value));
            }
            assert!(!(animator.state == AnimationState::Ended && tdur.is_infinite()), "Ended on an infinitely repeating timeline\n  {}", ctx(i, &animator, &targets.value));
            // events: one per state change, carrying the state at the end of the frame
            let changed = animator.state != before_state;
            assert!(events.count == before_events + changed as u32, "{} event(s) for {} state change\n  {}", events.count - before_events, changed as u32, ctx(i, &animator, &targets.value));
            if changed {
                assert!(events.last_state == Some(animator.state) && events.last_entity == Some(e), "the event does not carry the final state\n  {}", ctx(i, &animator, &targets.value));
                if animator.state == AnimationState::Ended {
                    ended_events += 1;
                }
            }
            // while Playing the component equals the timeline evaluated at a position at most one frame old
            if before_state == AnimationState::Playing {
                let mut exp = before_val.clone();
                tl.update(&mut exp, pos_before_secs);
                assert!(targets.value == exp, "Playing: the component is not the timeline evaluated at the position before this frame ({})\n  expected {:?}\n  {}", pos_before_secs, exp, ctx(i, &animator, &targets.value));
            }
            // whenever Ended is reported the component holds the terminal values
            if animator.state == AnimationState::Ended {
                assert!(targets.value == terminal, "Ended but the component does not hold the terminal values {:?}\n  {}", terminal, ctx(i, &animator, &targets.value));
                frames_since_ended += 1;
                if frames_since_ended > 5 {
                    break;
                }
            }
        }
        assert!(ended_events <= 1, "more than one Ended event in one run ({})", ended_events);
        frames
    }

    #[test]
    fn bevy_frames_search() {
        let mut seed = 0x853C49E6748FEA9Bu64;
        let mut next = move || {
            seed ^= seed << 13;
            seed ^= seed >> 7;
            seed ^= seed << 17;
            seed
        };
        let alphabet = [0.0f32, 1e-6, 1.0 / 60.0, 0.1, 0.35, 7.0];
        let mut schedules: Vec<(String, Vec<f32>)> = Vec::new();
        for dt in [1.0f32 / 60.0, 0.05, 0.1, 0.3, 5.0] {
            schedules.push((format!("constant {}", dt), vec![dt; 4000]));
            schedules.push((format!("constant {} with a zero-length frame every 3rd", dt), (0..4000).map(|i| if i % 3 == 2 { 0.0 } else { dt }).collect()));
        }
        for k in 0..40 {
            schedules.push((format!("pseudo-random #{}", k), (0..4000).map(|_| alphabet[(next() % 6) as usize]).collect()));
        }
        let mut runs = 0u64;
        let mut frames = 0u64;
        for delay in [0.0f32, 0.1, 0.7] {
            for cycle in [0.1f32, 0.3, 0.9, 1.0] {
                for repeat in [Repeat::None, Repeat::Times(2), Repeat::Times(5), Repeat::Infinite] {
                    for reverse in [false, true] {
                        for (what, sch) in &schedules {
                            let sch: &[f32] = if repeat == Repeat::Infinite { &sch[..300] } else { sch };
                            frames += run(delay, cycle, repeat, reverse, sch, None, what);
                            frames += run(delay, cycle, repeat, reverse, sch, Some(4), what);
                            runs += 2;
                        }
                    }
                }
            }
        }
        println!("bevy frames search: {} runs, {} frames, no violation", runs, frames);
    }
}
