//! Small-scope native search on the REAL `prepare_frame` (bounded; C01/C04/C10), public API only.
//! Copied to core/tests/verif_native_prepare.rs of a scratch copy, run with plain `cargo test`.
//! Route V proves prepare_frame for every size but ASSUMES std's binary-search contract (A7) and
//! needs the call to keep its shape (V-R8); the Kani harnesses execute the real search up to 16
//! keyframes.  This search runs the real function on larger lists.
//!
//! Scope: 1..=40 master keyframes, positions on a 1/64 grid (sorted, repeats allowed), 400
//! pseudo-random lists per size (fixed seed) plus the evenly spaced list; 6 timing configurations;
//! times on a 1/8 grid in [-1, 12].
//! Oracle (from the property text): the position is get_position's (0 when not started), the
//! master index brackets it (keyframe[idx] <= t <= keyframe[idx+1], or t before the first and
//! idx == 0), the start-override flag is on exactly when not started or on the first forward pass.
use mina_core::time_scale::{TimeScale, TimeScalePosition};
use mina_core::timeline::{prepare_frame, Repeat};

fn hint_ok(bt: &[f32], hint: usize, t: f32) -> bool {
    hint < bt.len() && ((bt[hint] <= t && (hint + 1 >= bt.len() || t <= bt[hint + 1])) || (hint == 0 && t < bt[0]))
}

fn check(bt: &[f32], ts: &TimeScale, what: &str) -> u64 {
    let mut n = 0;
    for ti in -8i32..=96 {
        let time = ti as f32 / 8.0;
        let got = prepare_frame(time, bt, ts);
        let (exp_t, exp_flag) = match ts.get_position(time) {
            TimeScalePosition::NotStarted => (0.0, true),
            TimeScalePosition::Active(t, ls) => (t, !ls.is_repeating && !ls.is_reversing),
            TimeScalePosition::Ended(t) => (t, false),
        };
        let ok = match got {
            None => bt.is_empty(),
            Some((t, idx, flag)) => !bt.is_empty() && t == exp_t && flag == exp_flag && hint_ok(bt, idx, t),
        };
        assert!(
            ok,
            "prepare_frame disagrees with the specification\n  boundary_times = {:?}\n  timescale = {} time = {}\n  expected position = {} flag = {} and an index bracketing it\n  got = {:?}",
            bt, what, time, exp_t, exp_flag, got
        );
        n += 1;
    }
    n
}

#[test]
fn prepare_frame_search() {
    let configs = [
        (2.0f32, 0.0f32, Repeat::None, false),
        (2.0, 1.0, Repeat::None, true),
        (1.5, 0.5, Repeat::Times(3), false),
        (1.5, 0.0, Repeat::Times(2), true),
        (3.0, 1.0, Repeat::Infinite, false),
        (3.0, 0.0, Repeat::Infinite, true),
    ];
    let mut seed = 0xD1B54A32D192ED03u64;
    let mut next = move || {
        seed ^= seed << 13;
        seed ^= seed >> 7;
        seed ^= seed << 17;
        seed
    };
    let mut calls = 0u64;
    let mut lists = 0u64;
    for (dur, delay, rep, rev) in configs {
        let ts = TimeScale::new(dur, delay, rep, rev);
        let what = format!("TimeScale::new({}, {}, {:?}, {})", dur, delay, rep, rev);
        calls += check(&[], &ts, &what);
        for n in 1..=40usize {
            let even: Vec<f32> = (0..n).map(|i| if n == 1 { 0.0 } else { i as f32 / (n - 1) as f32 }).collect();
            calls += check(&even, &ts, &what);
            lists += 1;
            for _ in 0..400 {
                let mut bt: Vec<f32> = (0..n).map(|_| (next() % 65) as f32 / 64.0).collect();
                bt.sort_by(|a, b| a.total_cmp(b));
                calls += check(&bt, &ts, &what);
                lists += 1;
            }
        }
    }
    println!("prepare_frame search: {} keyframe lists, {} calls, no disagreement", lists, calls);
}
