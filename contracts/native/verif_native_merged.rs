//! Small-scope native search on the REAL `MergedTimeline` (bounded; C12), public API only.
//! Copied to core/tests/verif_native_merged.rs of a scratch copy, run with plain `cargo test`.
//! Covers what route V cannot state (`start_with` through `iter_mut`, the iterator-adapter
//! aggregates) beyond the 0..5 components of the Kani harnesses, and gives a concrete failing
//! component list.
//!
//! Scope: 0..=12 components (every n, 3000 pseudo-random lists each, fixed seed; n <= 2 also
//! exhaustively over a small timing grid); each component animates a subset of 4 properties with
//! an order-sensitive update (the new value depends on the value found), finite delay, finite or
//! infinite duration, repeat None / Times(1..9) / Infinite, cycle Some(d) from a 3-value set.
//! Oracle (from the property text): update == the components applied one after another, in order,
//! to the same target at the same time (each component a standalone clone); start_with reaches
//! every component; delay = min, duration = max (inf if any), repeat = max, cycle = the common
//! value or None; a single wrapped timeline is indistinguishable from the timeline itself.
use mina_core::timeline::{MergedTimeline, Repeat, Timeline};

#[derive(Clone, Debug, PartialEq)]
struct Comp {
    id: i64,
    mask: u8,
    delay: f32,
    duration: f32,
    repeat: Repeat,
    cycle: Option<f32>,
    start: Option<[i64; 4]>,
}

impl Timeline for Comp {
    type Target = [i64; 4];
    fn cycle_duration(&self) -> Option<f32> {
        self.cycle
    }
    fn delay(&self) -> f32 {
        self.delay
    }
    fn duration(&self) -> f32 {
        self.duration
    }
    fn repeat(&self) -> Repeat {
        self.repeat
    }
    fn start_with(&mut self, values: &Self::Target) {
        self.start = Some(*values);
    }
    fn update(&self, values: &mut Self::Target, time: f32) {
        for p in 0..4 {
            if self.mask & (1 << p) != 0 {
                let s = self.start.map(|s| s[p]).unwrap_or(-1);
                // order-sensitive: depends on what is already there
                values[p] = (values[p].wrapping_mul(31) ^ (self.id * 7 + (time * 4.0) as i64)).wrapping_add(s) % 1_000_003;
            }
        }
    }
}

fn ord(r: Repeat) -> u64 {
    match r {
        Repeat::None => 0,
        Repeat::Times(n) => n as u64,
        Repeat::Infinite => u64::MAX,
    }
}

fn check(comps: &[Comp]) {
    let merged = MergedTimeline::of(comps.to_vec());
    let describe = || format!("components (in order) = {:#?}", comps);
    // aggregates
    let exp_delay = comps.iter().map(|c| c.delay).fold(None, |a: Option<f32>, d| Some(a.map_or(d, |a| a.min(d)))).unwrap_or(0.0);
    let exp_dur = comps.iter().map(|c| c.duration).fold(None, |a: Option<f32>, d| Some(a.map_or(d, |a| a.max(d)))).unwrap_or(0.0);
    let exp_rep = comps.iter().map(|c| c.repeat).fold(Repeat::None, |a, r| if ord(r) > ord(a) { r } else { a });
    let exp_cycle = match comps.first() {
        None => None,
        Some(f) => {
            if comps.iter().all(|c| c.cycle == f.cycle) {
                f.cycle
            } else {
                None
            }
        }
    };
    assert!(merged.delay() == exp_delay, "merged delay {} != smallest component delay {}\n  {}", merged.delay(), exp_delay, describe());
    assert!(merged.duration() == exp_dur, "merged duration {} != largest component duration {}\n  {}", merged.duration(), exp_dur, describe());
    assert!(merged.repeat() == exp_rep, "merged repeat {:?} != largest component repeat {:?}\n  {}", merged.repeat(), exp_rep, describe());
    assert!(merged.cycle_duration() == exp_cycle, "merged cycle {:?} != common component cycle {:?}\n  {}", merged.cycle_duration(), exp_cycle, describe());
    // update == components in order; with and without start_with; clone equivalent
    let start = [11i64, 22, 33, 44];
    for with_start in [false, true] {
        let mut m = merged.clone();
        let mut solo: Vec<Comp> = comps.to_vec();
        if with_start {
            m.start_with(&start);
            for c in solo.iter_mut() {
                c.start_with(&start);
            }
        }
        for ti in [-1i32, 0, 1, 3, 8] {
            let time = ti as f32 / 2.0;
            let before = [5i64, 6, 7, 8];
            let mut got = before;
            m.update(&mut got, time);
            let mut exp = before;
            for c in &solo {
                c.update(&mut exp, time);
            }
            assert!(
                got == exp,
                "merged update != components applied in order\n  start_with = {} time = {} target before = {:?}\n  expected = {:?}\n  got = {:?}\n  {}",
                with_start, time, before, exp, got, describe()
            );
        }
    }
    if comps.len() == 1 {
        let single: MergedTimeline<Comp> = comps[0].clone().into();
        let c = &comps[0];
        assert!(
            single.delay() == c.delay && single.duration() == c.duration && single.repeat() == c.repeat && single.cycle_duration() == c.cycle,
            "wrapping a single timeline changed its metadata\n  {}", describe()
        );
    }
}

const DELAYS: [f32; 4] = [0.0, 0.5, 1.0, 2.5];
const DURS: [f32; 5] = [0.0, 1.0, 2.0, 7.5, f32::INFINITY];
const CYCLES: [Option<f32>; 4] = [Some(1.0), Some(2.0), None, Some(1.0)];

fn comp(id: i64, code: u64) -> Comp {
    let mut c = code;
    let mut take = |m: u64| {
        let v = c % m;
        c /= m;
        v
    };
    let mask = take(16) as u8;
    let delay = DELAYS[take(4) as usize];
    let duration = DURS[take(5) as usize];
    let repeat = match take(4) {
        0 => Repeat::None,
        1 => Repeat::Times(1 + take(9) as u32),
        2 => Repeat::Times(3),
        _ => Repeat::Infinite,
    };
    let cycle = CYCLES[take(4) as usize];
    Comp { id, mask, delay, duration, repeat, cycle, start: None }
}

#[test]
fn merged_small_scope_search() {
    let mut count = 0u64;
    check(&[]);
    // n = 1, 2: a grid
    for a in 0..(16 * 4 * 5 * 4 * 4) {
        check(&[comp(1, a)]);
        count += 1;
    }
    for a in (0..(16 * 4 * 5 * 4 * 4)).step_by(7) {
        for b in (0..(16 * 4 * 5 * 4 * 4)).step_by(11) {
            check(&[comp(1, a), comp(2, b)]);
            count += 1;
        }
    }
    let mut seed = 0x9E3779B97F4A7C15u64;
    let mut next = move || {
        seed ^= seed << 13;
        seed ^= seed >> 7;
        seed ^= seed << 17;
        seed
    };
    for n in 3..=12usize {
        for _ in 0..3000 {
            let comps: Vec<Comp> = (0..n).map(|i| comp(i as i64 + 1, next() >> 8)).collect();
            check(&comps);
            count += 1;
        }
    }
    println!("merged small-scope search: {} component lists, no disagreement", count);
}
