//! EXHAUSTIVE native enumeration for C13's range / monotonicity / mirror sentences (public API).
//! Copied to core/tests/verif_native_easing.rs of a scratch copy, run with `cargo test --release`.
//! The Kani harnesses for these sentences did not return for all curves (DESIGN.md 8.3 L-EASE); a
//! unary f32 function on [0,1] has 1 065 353 217 inputs, so they are decided here by evaluating the
//! REAL `Easing::calc` at EVERY f32 in [0,1] (16 threads): complete by enumeration, not sampled.
//!   * every non-Back built-in: 0 <= calc(x) <= 1 for every x (exact, no tolerance);
//!   * every non-Back built-in: non-decreasing "to float rounding": calc(x) >= max over all smaller
//!     inputs of calc minus TOL (so the bound holds for ALL pairs x <= y, not just neighbours);
//!   * In/Out pairs: |in(x) + out(1 - x) - 1| <= TOL; InOut curves: |f(x) + f(1 - x) - 1| <= TOL
//!     (1 - x computed in f32, as a caller would);
//!   * all 29: calc(0) == 0, calc(1) == 1 exactly; Linear is the identity on every input.
//! TOL = 4 * f32::EPSILON (4.8e-7): the polynomial has 3 terms of magnitude <= 1.
use mina_core::easing::{Easing, EasingFunction};

const TOL: f32 = 4.0 * f32::EPSILON;
const ONE_BITS: u32 = 0x3F80_0000; // 1.0f32; every f32 in [0,1] has bits 0..=ONE_BITS

fn non_back() -> Vec<(&'static str, Easing)> {
    vec![
        ("Linear", Easing::Linear), ("Ease", Easing::Ease), ("In", Easing::In), ("Out", Easing::Out), ("InOut", Easing::InOut),
        ("InSine", Easing::InSine), ("OutSine", Easing::OutSine), ("InOutSine", Easing::InOutSine),
        ("InQuad", Easing::InQuad), ("OutQuad", Easing::OutQuad), ("InOutQuad", Easing::InOutQuad),
        ("InCubic", Easing::InCubic), ("OutCubic", Easing::OutCubic), ("InOutCubic", Easing::InOutCubic),
        ("InQuart", Easing::InQuart), ("OutQuart", Easing::OutQuart), ("InOutQuart", Easing::InOutQuart),
        ("InQuint", Easing::InQuint), ("OutQuint", Easing::OutQuint), ("InOutQuint", Easing::InOutQuint),
        ("InExpo", Easing::InExpo), ("OutExpo", Easing::OutExpo), ("InOutExpo", Easing::InOutExpo),
        ("InCirc", Easing::InCirc), ("OutCirc", Easing::OutCirc), ("InOutCirc", Easing::InOutCirc),
    ]
}

fn pairs() -> Vec<(&'static str, Easing, Easing)> {
    vec![
        ("In/Out", Easing::In, Easing::Out), ("InSine/OutSine", Easing::InSine, Easing::OutSine), ("InQuad/OutQuad", Easing::InQuad, Easing::OutQuad),
        ("InCubic/OutCubic", Easing::InCubic, Easing::OutCubic), ("InQuart/OutQuart", Easing::InQuart, Easing::OutQuart),
        ("InQuint/OutQuint", Easing::InQuint, Easing::OutQuint), ("InExpo/OutExpo", Easing::InExpo, Easing::OutExpo),
        ("InCirc/OutCirc", Easing::InCirc, Easing::OutCirc), ("InBack/OutBack", Easing::InBack, Easing::OutBack),
        ("InOut", Easing::InOut, Easing::InOut), ("InOutSine", Easing::InOutSine, Easing::InOutSine), ("InOutQuad", Easing::InOutQuad, Easing::InOutQuad),
        ("InOutCubic", Easing::InOutCubic, Easing::InOutCubic), ("InOutQuart", Easing::InOutQuart, Easing::InOutQuart),
        ("InOutQuint", Easing::InOutQuint, Easing::InOutQuint), ("InOutExpo", Easing::InOutExpo, Easing::InOutExpo),
        ("InOutCirc", Easing::InOutCirc, Easing::InOutCirc), ("InOutBack", Easing::InOutBack, Easing::InOutBack),
    ]
}

#[test]
fn easing_exhaustive() {
    // endpoints, all 29
    let mut all = non_back();
    all.push(("InBack", Easing::InBack));
    all.push(("OutBack", Easing::OutBack));
    all.push(("InOutBack", Easing::InOutBack));
    assert!(all.len() == 29);
    for (name, e) in &all {
        assert!(e.calc(0.0) == 0.0 && e.calc(1.0) == 1.0, "{}: calc(0) = {}, calc(1) = {} (must be exactly 0 and 1)", name, e.calc(0.0), e.calc(1.0));
    }
    const THREADS: u32 = 16;
    let chunk = ONE_BITS / THREADS + 1;
    // pass 1: per chunk, range + local monotonicity; returns (max value in chunk, min over chunk of (value - running max within chunk), first value)
    let curves = non_back();
    let results: Vec<Vec<(f32, f32)>> = std::thread::scope(|s| {
        let hs: Vec<_> = (0..THREADS)
            .map(|k| {
                let curves = &curves;
                s.spawn(move || {
                    let lo = k * chunk;
                    let hi = ((k + 1) * chunk - 1).min(ONE_BITS);
                    let mut out = Vec::new();
                    for (name, e) in curves.iter() {
                        let mut run_max = f32::NEG_INFINITY;
                        let mut chunk_min = f32::INFINITY;
                        for bits in lo..=hi {
                            let x = f32::from_bits(bits);
                            let y = e.calc(x);
                            assert!(y >= 0.0 && y <= 1.0, "{}: calc({:e}) = {:e} is outside [0,1] (x bits {:#x})", name, x, y, bits);
                            assert!(y >= run_max - TOL, "{}: not non-decreasing to float rounding: calc({:e}) = {:e} but a smaller input gave {:e} (x bits {:#x})", name, x, y, run_max, bits);
                            if *name == "Linear" {
                                assert!(y == x, "Linear is not the identity at {:e}", x);
                            }
                            if y > run_max {
                                run_max = y;
                            }
                            if y < chunk_min {
                                chunk_min = y;
                            }
                        }
                        out.push((run_max, chunk_min));
                    }
                    out
                })
            })
            .collect();
        hs.into_iter().map(|h| h.join().expect("a worker found a violation (see its panic message above)")).collect()
    });
    // across chunks: every value in a later chunk >= max of all earlier chunks - TOL
    for (ci, (name, _)) in curves.iter().enumerate() {
        let mut prev_max = f32::NEG_INFINITY;
        for k in 0..THREADS as usize {
            let (mx, mn) = results[k][ci];
            assert!(mn >= prev_max - TOL, "{}: not non-decreasing across inputs: a value {:e} follows a larger value {:e}", name, mn, prev_max);
            if mx > prev_max {
                prev_max = mx;
            }
        }
    }
    // pass 2: mirror, every x
    let prs = pairs();
    std::thread::scope(|s| {
        let hs: Vec<_> = (0..THREADS)
            .map(|k| {
                let prs = &prs;
                s.spawn(move || {
                    let lo = k * chunk;
                    let hi = ((k + 1) * chunk - 1).min(ONE_BITS);
                    for (name, a, b) in prs.iter() {
                        for bits in lo..=hi {
                            let x = f32::from_bits(bits);
                            let d = a.calc(x) + b.calc(1.0 - x) - 1.0;
                            assert!(d.abs() <= TOL, "{}: not point-mirrored at x = {:e}: a(x) + b(1-x) - 1 = {:e}", name, x, d);
                        }
                    }
                })
            })
            .collect();
        for h in hs {
            h.join().expect("a worker found a violation (see its panic message above)");
        }
    });
    println!("easing exhaustive search: {} inputs per curve, 26 curves range+monotone, 18 mirror pairs, no violation", ONE_BITS as u64 + 1);
}
