//! Structure half of the small-scope native search: the PRIVATE frame list and index map that
//! `from_keyframes` builds, compared with the specification twin (see verif_native_search.rs).
//! Kept separate because it names private fields: if it stops compiling (fields renamed), the
//! driver runs the public-API half alone.

use super::verif_native_search::{positions_pub as positions, spec_pub as spec, tag_of_pub as tag_of, tag_pub as tag, D};
use super::*;
use crate::timeline::Keyframe;

#[test]
fn structure_matches_spec() {
    let default_value = -1.0f32;
    let mut lists = 0u64;
    for n in 0..=4usize {
        for pos in positions(n) {
            for def_mask in 0..(1u32 << n) {
                for ease_code in 0..(3u32.pow(n as u32)) {
                    let mut kfs = Vec::new();
                    let mut ec = ease_code;
                    for i in 0..n {
                        let e = match ec % 3 {
                            0 => None,
                            1 => Some(2.0),
                            _ => Some(3.0),
                        };
                        ec /= 3;
                        let v = if def_mask & (1 << i) != 0 { Some(10.0 * (i as f32 + 1.0)) } else { None };
                        kfs.push((pos[i], v, e));
                    }
                    let real_kfs: Vec<Keyframe<D>> = kfs.iter().map(|k| Keyframe::new(k.0, D { v: k.1 }, k.2.map(tag))).collect();
                    let sub = SubTimeline::from_keyframes(&real_kfs, default_value, |d: &D| d.v, tag(1.0));
                    let (frames, map) = spec(&kfs, default_value, 1.0);
                    lists += 1;
                    let got_frames: Vec<(f32, f32, f32)> = sub.frames.iter().map(|f| (f.normalized_time, f.value, tag_of(&f.easing))).collect();
                    assert!(
                        got_frames == frames && sub.frame_index_map == map && sub.start_frame_override.is_none(),
                        "from_keyframes disagrees with the specification\n  keyframes (pos, value, easing tag) = {:?}\n  default = {} easing tag 1\n  expected frames = {:?} map = {:?}\n  got      frames = {:?} map = {:?} override = {}",
                        kfs, default_value, frames, map, got_frames, sub.frame_index_map, sub.start_frame_override.is_some()
                    );
                }
            }
        }
    }
    println!("small-scope structure: {} keyframe lists, no disagreement", lists);
}
