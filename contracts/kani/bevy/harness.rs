// ===== proof harnesses (C18, C19) ==================================================================
#[cfg(kani)]
mod verif {
    use super::*;

    // -- A4': Duration -> f32 as an uninterpreted monotone function (same model as verif_dur.rs) --
    const N: usize = 3;
    static mut S_USED: usize = 0;
    static mut S_SECS: [u64; N] = [0; N];
    static mut S_NANOS: [u32; N] = [0; N];
    static mut S_VAL: [f32; N] = [0.0; N];
    static mut S_POOL: [f32; N] = [0.0; N];
    /// Draw every value the model may hand out up front (keeps native concrete playback aligned).
    fn model_reset() {
        unsafe {
            S_USED = 0;
            let mut i = 0;
            while i < N {
                S_POOL[i] = kani::any();
                i += 1;
            }
        }
    }
    fn le(s1: u64, n1: u32, s2: u64, n2: u32) -> bool {
        s1 < s2 || (s1 == s2 && n1 <= n2)
    }
    fn as_secs_f32_model(d: &Duration) -> f32 {
        let (s, n) = (d.as_secs(), d.subsec_nanos());
        unsafe {
            let mut i = 0;
            while i < N {
                if i < S_USED && S_SECS[i] == s && S_NANOS[i] == n {
                    return S_VAL[i];
                }
                i += 1;
            }
            kani::assert(S_USED < N, "memo table too small");
            let v: f32 = S_POOL[if S_USED < N { S_USED } else { 0 }];
            kani::assume(v >= 0.0 && v.is_finite());
            if s == 0 && n == 0 {
                kani::assume(v == 0.0);
            }
            let mut j = 0;
            while j < N {
                if j < S_USED {
                    if le(S_SECS[j], S_NANOS[j], s, n) {
                        kani::assume(S_VAL[j] <= v);
                    }
                    if le(s, n, S_SECS[j], S_NANOS[j]) {
                        kani::assume(v <= S_VAL[j]);
                    }
                }
                j += 1;
            }
            if S_USED < N {
                S_SECS[S_USED] = s;
                S_NANOS[S_USED] = n;
                S_VAL[S_USED] = v;
                S_USED += 1;
            }
            v
        }
    }

    // -- abstract timeline + target ----------------------------------------------------------------
    #[derive(Clone, Copy, Debug, PartialEq)]
    pub struct Comp {
        pub v: u8,
        pub updates: u8,
        pub last_update_at: f32,
    }
    impl Component for Comp {}

    #[derive(Clone)]
    pub struct AbsTl {
        pub id: u8,
        pub delay: f32,
        pub duration: f32,
        pub start: u8,
        pub end: u8,
        pub started_with: Option<u8>,
    }
    impl SafeTimeline for AbsTl {
        type Target = Comp;
        fn delay(&self) -> f32 {
            self.delay
        }
        fn duration(&self) -> f32 {
            self.duration
        }
        fn start_with(&mut self, values: &Comp) {
            self.started_with = Some(values.v);
        }
        fn update(&self, values: &mut Comp, time: f32) {
            // terminal value at/after the total duration, start value (substituted) up to the delay
            values.v = if time >= self.duration {
                self.end
            } else if time <= self.delay {
                self.started_with.unwrap_or(self.start)
            } else {
                self.id
            };
            values.updates = values.updates.wrapping_add(1);
            values.last_update_at = time;
        }
        fn box_clone(&self) -> Box<dyn SafeTimeline<Target = Comp>> {
            Box::new(self.clone())
        }
    }
    fn any_tl(id: u8) -> AbsTl {
        let delay: f32 = kani::any();
        let duration: f32 = kani::any();
        kani::assume(delay >= 0.0 && delay.is_finite() && duration >= delay);
        AbsTl { id, delay, duration, start: kani::any(), end: kani::any(), started_with: None }
    }
    fn any_state() -> AnimationState {
        match kani::any::<u8>() & 3 {
            0 => AnimationState::None,
            1 => AnimationState::Waiting,
            2 => AnimationState::Playing,
            _ => AnimationState::Ended,
        }
    }
    fn rank(s: AnimationState) -> u8 {
        match s {
            AnimationState::None => 0,
            AnimationState::Waiting => 1,
            AnimationState::Playing => 2,
            AnimationState::Ended => 3,
        }
    }
    fn any_duration() -> Duration {
        let s: u64 = kani::any();
        let n: u32 = kani::any();
        kani::assume(s < (1 << 23) && n < 1_000_000_000);
        Duration::new(s, n)
    }
    const E: Entity = Entity(7);

    struct Setup {
        animator: Animator<Comp>,
        tl: Option<AbsTl>,
        time: Time,
        targets: Targets<Comp>,
        events: Events,
    }
    fn setup() -> Setup {
        model_reset();
        let tl = if kani::any() { Some(any_tl(1)) } else { None };
        let animator = Animator {
            enabled: kani::any(),
            timeline_position: any_duration(),
            timeline: match &tl {
                Some(t) => Some(Box::new(t.clone()) as Box<dyn SafeTimeline<Target = Comp>>),
                None => None,
            },
            state: any_state(),
        };
        Setup {
            animator,
            tl,
            time: Time { delta: any_duration() },
            targets: Targets { entity: E, present: kani::any(), value: Comp { v: kani::any(), updates: 0, last_update_at: -1.0 } },
            events: Events::new(),
        }
    }

    /// C18 step contract: one run of the per-entity body of `animate`, from EVERY animator state.
    #[kani::proof]
    #[kani::unwind(4)]
    #[kani::stub(std::time::Duration::as_secs_f32, as_secs_f32_model)]
    pub(crate) fn animate_step_contract() {
        let mut s = setup();
        let old_state = s.animator.state;
        let old_pos = s.animator.timeline_position;
        let old_enabled = s.animator.enabled;
        let old_comp = s.targets.value;
        let pos_f = as_secs_f32_model(&old_pos);

        animate_step(E, &mut s.animator, &s.time, &mut s.targets, &mut s.events);

        let new_state = s.animator.state;
        assert!(s.animator.enabled == old_enabled);
        if !old_enabled {
            // a disabled animator changes nothing and announces nothing
            assert!(new_state == old_state && s.animator.timeline_position == old_pos);
            assert!(s.events.count == 0 && s.targets.value == old_comp);
            return;
        }
        match &s.tl {
            None => {
                // no timeline: state falls back to None (announced once), time does not move
                assert!(new_state == AnimationState::None && s.animator.timeline_position == old_pos);
                assert!(s.targets.value == old_comp);
                assert!(s.events.count == if old_state != AnimationState::None { 1 } else { 0 });
            }
            Some(tl) => {
                // state only moves forward
                assert!(rank(new_state) >= rank(old_state));
                // time is conserved: grows by exactly the frame delta unless (now) ended
                if new_state != AnimationState::Ended {
                    assert!(s.animator.timeline_position == old_pos + s.time.delta);
                } else {
                    assert!(s.animator.timeline_position == old_pos);
                }
                // Waiting only while the position is before the delay; Ended iff position reached the total duration
                if new_state == AnimationState::Waiting {
                    assert!(pos_f < tl.delay);
                }
                // Ended iff it already was (absorbing until reset) or the position has reached the total duration
                assert!((new_state == AnimationState::Ended) == (old_state == AnimationState::Ended || pos_f >= tl.duration));
                if tl.duration == f32::INFINITY && old_state != AnimationState::Ended {
                    assert!(new_state != AnimationState::Ended);
                }
                // the component is evaluated (once, at the current position) iff it was Playing, or it
                // ends in the very frame in which it left None/Waiting
                let ends_unplayed = new_state == AnimationState::Ended && old_state != AnimationState::Ended && old_state != AnimationState::Playing;
                if (old_state == AnimationState::Playing || ends_unplayed) && s.targets.present {
                    // (at the current position; once the position is at/after the end, any evaluation time at/after
                    // the end shows the same - terminal - values, which is all the property speaks of)
                    let at = s.targets.value.last_update_at;
                    assert!(s.targets.value.updates == 1 && (at == pos_f || (pos_f >= tl.duration && at >= tl.duration)));
                } else {
                    assert!(s.targets.value == old_comp);
                }
                // exactly one event iff the state changed, carrying the state at the end of the frame
                if new_state != old_state {
                    assert!(s.events.count == 1 && s.events.last_state == Some(new_state) && s.events.last_entity == Some(E));
                } else {
                    assert!(s.events.count == 0);
                }
            }
        }
    }

    /// C18 "whenever it reports Ended the target holds the timeline's terminal values": from
    /// every enabled, not-yet-ended pre-state, if this step reports Ended the component has just
    /// been evaluated at a position >= the total duration.
    #[kani::proof]
    #[kani::unwind(4)]
    #[kani::stub(std::time::Duration::as_secs_f32, as_secs_f32_model)]
    pub(crate) fn ended_implies_terminal_values() {
        let mut s = setup();
        kani::assume(s.animator.enabled && s.tl.is_some() && s.targets.present);
        kani::assume(s.animator.state != AnimationState::Ended);
        let tl = s.tl.clone().unwrap();
        kani::assume(s.targets.value.v != tl.end);
        animate_step(E, &mut s.animator, &s.time, &mut s.targets, &mut s.events);
        if s.animator.state == AnimationState::Ended {
            assert!(s.targets.value.v == tl.end, "Ended reported but the component was not evaluated at the end");
        }
    }

    /// The same statement restricted to the complement of the finding's class (the animator was
    /// Playing when it ended): must hold.
    #[kani::proof]
    #[kani::unwind(4)]
    #[kani::stub(std::time::Duration::as_secs_f32, as_secs_f32_model)]
    pub(crate) fn ended_from_playing_holds_terminal_values() {
        let mut s = setup();
        kani::assume(s.animator.enabled && s.tl.is_some() && s.targets.present);
        kani::assume(s.animator.state == AnimationState::Playing);
        let tl = s.tl.clone().unwrap();
        animate_step(E, &mut s.animator, &s.time, &mut s.targets, &mut s.events);
        if s.animator.state == AnimationState::Ended {
            assert!(s.targets.value.v == tl.end);
        }
    }

    /// C18 multi-frame sentences over TWO consecutive frames from every enabled, not-ended pre-state
    /// with a timeline: at most one `Ended` event; if the position has reached the total duration at
    /// the start of a frame that frame reports Ended ("no later than one frame after the position
    /// reaches the total duration"); an animator reported Ended never moves again.
    #[kani::proof]
    #[kani::unwind(4)]
    #[kani::stub(std::time::Duration::as_secs_f32, as_secs_f32_model)]
    pub(crate) fn animate_two_frames_lemma() {
        let mut s = setup();
        kani::assume(s.animator.enabled && s.tl.is_some());
        kani::assume(s.animator.state != AnimationState::Ended);
        let tl = s.tl.clone().unwrap();
        let p0 = as_secs_f32_model(&s.animator.timeline_position);
        animate_step(E, &mut s.animator, &s.time, &mut s.targets, &mut s.events);
        let ended1 = s.animator.state == AnimationState::Ended;
        let ev1 = s.events.last_state == Some(AnimationState::Ended) && s.events.count == 1;
        assert!(ended1 == (p0 >= tl.duration));
        assert!(ended1 == ev1 || !ended1);
        let pos1 = s.animator.timeline_position;
        let p1 = as_secs_f32_model(&pos1);
        let mut events2 = Events::new();
        let time2 = Time { delta: any_duration() };
        animate_step(E, &mut s.animator, &time2, &mut s.targets, &mut events2);
        let ended2 = s.animator.state == AnimationState::Ended;
        if ended1 {
            // absorbing: no second announcement, no movement
            assert!(ended2 && events2.count == 0 && s.animator.timeline_position == pos1);
        } else {
            // the position reached the end during frame 1 => frame 2 reports it, exactly once
            assert!(ended2 == (p1 >= tl.duration));
            if ended2 {
                assert!(events2.count == 1 && events2.last_state == Some(AnimationState::Ended));
            }
        }
        if tl.duration == f32::INFINITY {
            assert!(!ended1 && !ended2);
        }
    }

    /// C18: Animator API: reset rewinds, new/default/with_timeline start enabled at zero in None.
    #[kani::proof]
    #[kani::unwind(4)]
    pub(crate) fn animator_api_contract() {
        let a: Animator<Comp> = Animator::new();
        assert!(a.enabled && a.timeline.is_none() && a.timeline_position == Duration::ZERO && a.state() == AnimationState::None);
        let d: Animator<Comp> = Animator::default();
        assert!(d.enabled && d.timeline.is_none() && d.timeline_position == Duration::ZERO && d.state() == AnimationState::None);
        let mut w = Animator::with_timeline(any_tl(3));
        assert!(w.enabled && w.timeline.is_some() && w.timeline_position == Duration::ZERO && w.state() == AnimationState::None);
        w.timeline_position = any_duration();
        w.state = any_state();
        w.reset();
        assert!(w.timeline_position == Duration::ZERO && w.state() == AnimationState::None && w.timeline.is_some());
        let off = Animator::<Comp>::new().as_disabled();
        assert!(!off.enabled);
    }

    // -- C19 ----------------------------------------------------------------------------------------
    #[derive(Clone, Copy, Debug, Default, PartialEq, Eq)]
    pub struct Key(pub u8);

    fn selector_with(keys: &[(u8, bool)], current: u8, previous: Option<u8>) -> AnimationSelector<Key, Comp> {
        let mut m: HashMap<Key, Box<dyn SafeTimeline<Target = Comp>>> = HashMap::new();
        let mut i = 0;
        while i < keys.len() {
            if keys[i].1 {
                m.entries.push((Key(keys[i].0), Box::new(any_tl(keys[i].0))));
            }
            i += 1;
        }
        AnimationSelector { timelines: m, timeline_key: Key(current), previous_key: previous.map(Key) }
    }

    /// C19 select step: re-assigning the current key changes nothing; a new key installs a clone of
    /// that key's timeline started from the component's current values and resets the animator; a
    /// key without a timeline stops animation and leaves the component alone.
    /// One harness per (key 0 mapped, key 1 mapped) - together every combination; everything else is
    /// symbolic in each.  (As a single harness over symbolic flags the Vec behind the shim map has a
    /// symbolic length: 4.6 M SAT variables, 25 s to > 400 s from run to run.)
    #[kani::proof]
    #[kani::unwind(4)]
    pub(crate) fn select_animation_step_contract_h00() {
        select_contract_body(false, false);
    }
    #[kani::proof]
    #[kani::unwind(4)]
    pub(crate) fn select_animation_step_contract_h01() {
        select_contract_body(false, true);
    }
    #[kani::proof]
    #[kani::unwind(4)]
    pub(crate) fn select_animation_step_contract_h10() {
        select_contract_body(true, false);
    }
    #[kani::proof]
    #[kani::unwind(4)]
    pub(crate) fn select_animation_step_contract_h11() {
        select_contract_body(true, true);
    }
    fn select_contract_body(has0: bool, has1: bool) {
        let cur: u8 = kani::any::<u8>() & 1;
        let prev: Option<u8> = if kani::any() { Some(kani::any::<u8>() & 1) } else { None };
        let mut selector = selector_with(&[(0, has0), (1, has1)], cur, prev);
        let comp = Comp { v: kani::any(), updates: 0, last_update_at: -1.0 };
        let old_pos = any_duration();
        let old_state = any_state();
        let present: bool = kani::any();
        let mut animators = Animators { entity: E, present, animator: Animator { enabled: kani::any(), timeline_position: old_pos, timeline: Some(Box::new(any_tl(9))), state: old_state } };
        let enabled = animators.animator.enabled;

        select_animation_step(E, &comp, &mut selector, &mut animators);

        assert!(selector.timeline_key == Key(cur));
        assert!(selector.previous_key == Some(Key(cur)));
        let a = &animators.animator;
        assert!(a.enabled == enabled);
        if prev == Some(cur) || !present {
            // nothing restarts
            assert!(a.timeline_position == old_pos && a.state == old_state);
            assert!(a.timeline.is_some());
        } else {
            assert!(a.timeline_position == Duration::ZERO && a.state == AnimationState::None);
            let has = if cur == 0 { has0 } else { has1 };
            assert!(a.timeline.is_some() == has);
            if let Some(t) = &a.timeline {
                // the installed timeline is key `cur`'s, blended from the component's current values:
                // evaluated at time 0 it shows exactly those values (no jump)
                let mut probe = Comp { v: comp.v.wrapping_add(1), updates: 0, last_update_at: -1.0 };
                t.update(&mut probe, 0.0);
                assert!(t.duration() <= 0.0 || probe.v == comp.v);
            }
        }
    }

    /// C19 chain step: the key moves to next[key] iff the event is `Ended` for this entity and the
    /// chain has an entry for the active key; otherwise nothing changes.
    #[kani::proof]
    #[kani::unwind(4)]
    pub(crate) fn chain_animations_step_contract() {
        let cur: u8 = kani::any::<u8>() & 1;
        let selector = selector_with(&[(0, true), (1, true)], cur, Some(cur));
        let has_entry: bool = kani::any();
        let next: u8 = kani::any::<u8>() & 1;
        let mut chain = AnimationChain { next_keys: HashMap::new() };
        if has_entry {
            chain.next_keys.entries.push((Key(cur), Key(next)));
        }
        let present: bool = kani::any();
        let mut q = Selectors { entity: E, present, selector, chain };
        let ev_entity = if kani::any() { E } else { Entity(8) };
        let ev_state = any_state();
        let ev = AnimationStateChanged::new(ev_entity, ev_state);

        chain_animations_step(&ev, &mut q);

        let fires = ev_state == AnimationState::Ended && ev_entity == E && present && has_entry;
        assert!(q.selector.timeline_key == Key(if fires { next } else { cur }));
        assert!(q.selector.previous_key == Some(Key(cur)));
    }

    /// Known finding C19-event-has-no-component-type (expected to FAIL): "the chain never fires when
    /// some OTHER animator on the entity ended".  `AnimationStateChanged` carries only the entity
    /// and the state, so the step cannot depend on which animator produced the event (ghost flag).
    #[kani::proof]
    #[kani::unwind(4)]
    pub(crate) fn finding_chain_ignores_which_animator_ended() {
        let selector = selector_with(&[(0, true), (1, true)], 0, Some(0));
        let mut chain = AnimationChain { next_keys: HashMap::new() };
        chain.next_keys.entries.push((Key(0), Key(1)));
        let mut q = Selectors { entity: E, present: true, selector, chain };
        // ghost: did the animator governed by THIS selector (component type T) emit the event?
        let from_this_animator: bool = kani::any();
        let ev = AnimationStateChanged::new(E, AnimationState::Ended);
        chain_animations_step(&ev, &mut q);
        let fired = q.selector.timeline_key == Key(1);
        assert!(!fired || from_this_animator, "chain fired for an event of another animator on the entity");
    }

    /// Canary: must FAIL.
    #[kani::proof]
    #[kani::unwind(4)]
    #[kani::stub(std::time::Duration::as_secs_f32, as_secs_f32_model)]
    pub(crate) fn canary_must_fail() {
        let mut s = setup();
        animate_step(E, &mut s.animator, &s.time, &mut s.targets, &mut s.events);
        assert!(s.events.count == 0, "canary: deliberately false");
    }
}
