//! A6 — stand-ins for the Bevy ECS types the extracted loop bodies mention.  Only what the
//! bodies use is modelled: queries are "the entity is / is not present", the event writer records,
//! `Time::delta` is a symbolic Duration, `HashMap` is an association list with `get`.
//! Not covered (and said so in DESIGN.md): that Bevy runs each system once per frame in the
//! registered order, `Changed<>` filtering, event buffering across frames, plugin registration.
#![allow(dead_code, unused_mut, unused_variables)]

use std::time::Duration;

#[derive(Clone, Copy, Debug, PartialEq, Eq)]
pub struct Entity(pub u32);

pub trait Component: 'static {}

pub trait AnimationKey: Clone + Default + Eq + 'static {}
impl<T> AnimationKey for T where T: Clone + Default + Eq + 'static {}

/// Shim of bevy_mina::SafeTimeline (= mina::Timeline + DynClone + Send + Sync + 'static).
pub trait SafeTimeline: 'static {
    type Target;
    fn delay(&self) -> f32;
    fn duration(&self) -> f32;
    fn start_with(&mut self, values: &Self::Target);
    fn update(&self, values: &mut Self::Target, time: f32);
    fn box_clone(&self) -> Box<dyn SafeTimeline<Target = Self::Target>>;
}
impl<T: 'static> Clone for Box<dyn SafeTimeline<Target = T>> {
    fn clone(&self) -> Self {
        self.box_clone()
    }
}
/// dyn_clone::clone_box
pub fn clone_box<X: Clone>(t: &X) -> Box<X> {
    Box::new(t.clone())
}

pub struct Time {
    pub delta: Duration,
}
impl Time {
    pub fn delta(&self) -> Duration {
        self.delta
    }
}

/// `Query<&mut T>`: at most the one entity under consideration.
pub struct Targets<T> {
    pub entity: Entity,
    pub present: bool,
    pub value: T,
}
impl<T> Targets<T> {
    pub fn get_mut(&mut self, e: Entity) -> Result<&mut T, ()> {
        if self.present && e == self.entity {
            Ok(&mut self.value)
        } else {
            Err(())
        }
    }
}

/// `EventWriter<AnimationStateChanged>`: records what was sent.
pub struct Events {
    pub count: u32,
    pub last_entity: Option<Entity>,
    pub last_state: Option<AnimationState>,
}
impl Events {
    pub fn new() -> Self {
        Events { count: 0, last_entity: None, last_state: None }
    }
    pub fn send(&mut self, ev: AnimationStateChanged) {
        self.count += 1;
        self.last_entity = Some(ev.entity);
        self.last_state = Some(ev.state);
    }
}

/// `Query<&mut Animator<T>>`
pub struct Animators<T: Component> {
    pub entity: Entity,
    pub present: bool,
    pub animator: Animator<T>,
}
impl<T: Component> Animators<T> {
    pub fn get_mut(&mut self, e: Entity) -> Result<&mut Animator<T>, ()> {
        if self.present && e == self.entity {
            Ok(&mut self.animator)
        } else {
            Err(())
        }
    }
}

/// `Query<(&mut AnimationSelector<K,T>, &AnimationChain<K>)>`
pub struct Selectors<K: AnimationKey, T: Component> {
    pub entity: Entity,
    pub present: bool,
    pub selector: AnimationSelector<K, T>,
    pub chain: AnimationChain<K>,
}
impl<K: AnimationKey, T: Component> Selectors<K, T> {
    pub fn get_mut(&mut self, e: Entity) -> Result<(&mut AnimationSelector<K, T>, &AnimationChain<K>), ()> {
        if self.present && e == self.entity {
            Ok((&mut self.selector, &self.chain))
        } else {
            Err(())
        }
    }
}

/// bevy::utils::HashMap, as far as the bodies use it.
pub struct HashMap<K, V> {
    pub entries: Vec<(K, V)>,
}
impl<K: PartialEq, V> HashMap<K, V> {
    pub fn new() -> Self {
        HashMap { entries: Vec::new() }
    }
    pub fn get(&self, k: &K) -> Option<&V> {
        let mut i = 0;
        while i < self.entries.len() {
            if &self.entries[i].0 == k {
                return Some(&self.entries[i].1);
            }
            i += 1;
        }
        None
    }
    pub fn get_mut(&mut self, k: &K) -> Option<&mut V> {
        let mut i = 0;
        while i < self.entries.len() {
            if &self.entries[i].0 == k {
                return Some(&mut self.entries[i].1);
            }
            i += 1;
        }
        None
    }
    pub fn contains_key(&self, k: &K) -> bool {
        self.get(k).is_some()
    }
    pub fn len(&self) -> usize {
        self.entries.len()
    }
    pub fn is_empty(&self) -> bool {
        self.entries.is_empty()
    }
    /// (keys are unique in every map the harnesses build: `insert` replaces)
    pub fn insert(&mut self, k: K, v: V) -> Option<V> {
        let mut i = 0;
        while i < self.entries.len() {
            if self.entries[i].0 == k {
                return Some(std::mem::replace(&mut self.entries[i].1, v));
            }
            i += 1;
        }
        self.entries.push((k, v));
        None
    }
}
