//! L-GEN — proof harnesses on the REAL expansion of `#[derive(Animate)]` (C17, C08, C09, C10, C01).
//! Copied to tests/verif_derive.rs of the scratch copy and run with `cargo kani -p mina --tests`.
//! rustc expands the derive; what is verified is the generated code itself.  Its callees
//! (`prepare_frame`, `SubTimeline::{value_at, override_start_value, from_keyframes}`) are replaced
//! by scripted / recording stubs (mina_core::timeline_helpers::verif_subtimeline::derive_support),
//! so the generated glue is proved against every behaviour of the callees.
//!
//! Struct family (bounded over programs): unattributed single field; mixed #[animate] subset with
//! an excluded field in the middle; six fields of the six numeric types, pub; a remote proxy.
#![cfg(kani)]
#![allow(dead_code)]

use mina::prelude::*;
use mina_core::timeline_helpers::verif_subtimeline::derive_support as ds;
use mina_core::timeline_helpers::SubTimeline;
use mina_core::time_scale::TimeScale;

fn any_f32() -> f32 {
    let v: f32 = kani::any();
    kani::assume(v.is_finite());
    v
}
fn any_f64() -> f64 {
    any_f32() as f64
}
fn any_repeat() -> Repeat {
    match kani::any::<u8>() % 3 {
        0 => Repeat::None,
        1 => Repeat::Times(kani::any()),
        _ => Repeat::Infinite,
    }
}
fn script<V: Clone>(v: V) -> SubTimeline<V> {
    if kani::any() {
        SubTimeline::verif_scripted(Some(v))
    } else {
        SubTimeline::verif_scripted(None)
    }
}
fn script_prepare_frame() -> Option<(f32, usize, bool)> {
    let some: bool = kani::any();
    let nt = any_f32();
    let idx: usize = kani::any();
    let flag: bool = kani::any();
    unsafe {
        ds::PF_RESULT_SOME = some;
        ds::PF_NT = nt;
        ds::PF_IDX = idx;
        ds::PF_FLAG = flag;
    }
    if some {
        Some((nt, idx, flag))
    } else {
        None
    }
}
fn value_at_args_were(pf: Option<(f32, usize, bool)>, expected_calls: u32) -> bool {
    unsafe {
        match pf {
            None => ds::VA_CALLS == 0,
            Some((nt, idx, flag)) => {
                ds::VA_CALLS == expected_calls
                    && ds::VA_CONSISTENT
                    && (expected_calls == 0 || (ds::VA_NT == nt && ds::VA_IDX == idx && ds::VA_FLAG == flag))
            }
        }
    }
}

macro_rules! stubs {
    ($item:item) => {
        #[kani::proof]
        #[kani::unwind(4)]
        #[kani::stub(mina_core::timeline::prepare_frame, mina_core::timeline_helpers::verif_subtimeline::derive_support::prepare_frame_stub)]
        #[kani::stub(mina_core::timeline_helpers::SubTimeline::value_at, mina_core::timeline_helpers::verif_subtimeline::derive_support::value_at_stub)]
        #[kani::stub(mina_core::timeline_helpers::SubTimeline::override_start_value, mina_core::timeline_helpers::verif_subtimeline::derive_support::override_start_value_stub)]
        #[kani::stub(mina_core::timeline_helpers::SubTimeline::from_keyframes, mina_core::timeline_helpers::SubTimeline::verif_from_keyframes_stub)]
        $item
    };
}

// ================================================================================================
// Shape 1: one field, no attribute (=> every field is animated)
mod shape1 {
    use super::*;

    #[derive(Animate, Clone, Debug, Default, PartialEq)]
    pub struct One {
        x: f32,
    }

    stubs! {
        /// C17: generated update = prepare_frame, then per animated field: assign iff value_at is Some.
        /// C08/C09: nothing else is written; the previous content of the field is irrelevant.
        fn update_contract() {
            ds::reset();
            let sx = any_f32();
            let had_x: bool;
            let t_x = { let s = script(sx); had_x = s.verif_map_len() > 0; s };
            let tl = OneTimeline { boundary_times: vec![0.0, 1.0], timescale: TimeScale::new(1.0, 0.5, Repeat::None, false), t_x };
            let pf = script_prepare_frame();
            let time = any_f32();
            let before = One { x: any_f32() };
            let mut target = before.clone();
            tl.update(&mut target, time);
            unsafe {
                assert!(ds::PF_CALLS == 1 && ds::PF_TIME == time && ds::PF_BT_LEN == 2 && ds::PF_TS_DELAY == 0.5);
            }
            assert!(value_at_args_were(pf, 1));
            let expect_x = if pf.is_some() && had_x { sx } else { before.x };
            assert!(target.x == expect_x);
        }
    }

    stubs! {
        /// C09/C10: start_with hands each animated field's value to its own sub-timeline and
        /// touches neither the time scale nor the boundary times.
        fn start_with_contract() {
            ds::reset();
            let mut tl = OneTimeline { boundary_times: vec![0.0, 1.0], timescale: TimeScale::new(2.0, 0.5, Repeat::Times(3), true), t_x: script(any_f32()) };
            let v = One { x: any_f32() };
            tl.start_with(&v);
            assert!(tl.t_x.verif_override_value() == Some(v.x));
            assert!(tl.boundary_times.len() == 2 && tl.delay() == 0.5 && tl.cycle_duration() == Some(2.0) && tl.repeat() == Repeat::Times(3));
        }
    }

    stubs! {
        /// C17/C03: accessors return what the builder was given; build wires each field to its own
        /// getter and to the type's Default; keyframe_from copies the animated fields.
        fn build_and_accessors_contract() {
            ds::reset();
            let (dur, delay) = (any_f32(), any_f32());
            kani::assume(dur > 0.0);
            let rep = any_repeat();
            let v = One { x: any_f32() };
            let tl = One::timeline()
                .duration_seconds(dur)
                .delay_seconds(delay)
                .repeat(rep)
                .keyframe(One::keyframe_from(&v, 0.25))
                .build();
            assert!(tl.cycle_duration() == Some(dur) && tl.delay() == delay && tl.repeat() == rep);
            assert!(tl.boundary_times.len() == 1 && tl.boundary_times[0] == 0.25);
            assert!(tl.t_x.verif_frame_value(0) == Some(f32::default()));
            assert!(tl.t_x.verif_frame_value(1) == Some(v.x));
            assert!(tl.t_x.verif_map_len() == 1);
            // the generated keyframe builder: position, value and (optional) easing reach the keyframe
            let kf = mina::KeyframeBuilder::build(&One::keyframe(0.5).x(3.0));
            assert!(kf.verif_time() == 0.5 && kf.verif_data().x == Some(3.0) && kf.verif_easing().is_none());
            let kf2 = mina::KeyframeBuilder::build(&mina::KeyframeBuilder::easing(One::keyframe(0.75), Easing::InQuad));
            assert!(kf2.verif_time() == 0.75 && kf2.verif_data().x.is_none());
            assert!(matches!(kf2.verif_easing(), Some(Easing::InQuad)));
        }
    }
}

// ================================================================================================
// Shape 3: mixed attributes, excluded field in the middle
mod shape3 {
    use super::*;

    #[derive(Animate, Clone, Debug, Default, PartialEq)]
    pub struct Mixed {
        #[animate]
        a: f32,
        b: u8,
        #[animate]
        c: i16,
    }

    stubs! {
        fn update_contract() {
            ds::reset();
            let (sa, sc) = (any_f32(), kani::any::<i16>());
            let (t_a, t_c) = (script(sa), script(sc));
            let (had_a, had_c) = (t_a.verif_map_len() > 0, t_c.verif_map_len() > 0);
            let tl = MixedTimeline { boundary_times: vec![0.5], timescale: TimeScale::new(1.0, 0.0, Repeat::None, false), t_a, t_c };
            let pf = script_prepare_frame();
            let time = any_f32();
            let before = Mixed { a: any_f32(), b: kani::any(), c: kani::any() };
            let mut target = before.clone();
            tl.update(&mut target, time);
            unsafe {
                assert!(ds::PF_CALLS == 1 && ds::PF_TIME == time && ds::PF_BT_LEN == 1);
            }
            assert!(value_at_args_were(pf, 2));
            assert!(target.a == if pf.is_some() && had_a { sa } else { before.a });
            assert!(target.c == if pf.is_some() && had_c { sc } else { before.c });
            // C08: the field excluded from animation is never touched
            assert!(target.b == before.b);
        }
    }

    stubs! {
        fn start_with_contract() {
            ds::reset();
            let mut tl = MixedTimeline { boundary_times: vec![0.5], timescale: TimeScale::new(1.0, 0.0, Repeat::None, false), t_a: script(any_f32()), t_c: script(kani::any()) };
            let v = Mixed { a: any_f32(), b: kani::any(), c: kani::any() };
            tl.start_with(&v);
            assert!(tl.t_a.verif_override_value() == Some(v.a));
            assert!(tl.t_c.verif_override_value() == Some(v.c));
        }
    }

    stubs! {
        fn build_contract() {
            ds::reset();
            let v = Mixed { a: any_f32(), b: kani::any(), c: kani::any() };
            let tl = Mixed::timeline().keyframe(Mixed::keyframe_from(&v, 0.0)).keyframe(Mixed::keyframe(1.0).c(7)).build();
            assert!(tl.boundary_times.len() == 2);
            assert!(tl.t_a.verif_frame_value(0) == Some(0.0) && tl.t_a.verif_frame_value(1) == Some(v.a));
            assert!(tl.t_c.verif_frame_value(0) == Some(0) && tl.t_c.verif_frame_value(1) == Some(v.c));
            assert!(tl.t_a.verif_map_len() == 2 && tl.t_c.verif_map_len() == 2);
            // exactly the animated fields exist in the keyframe data (no `..` in the pattern)
            let MixedKeyframeData { a, c } = mina::KeyframeBuilder::build(&Mixed::keyframe(0.5).a(1.0)).verif_data();
            assert!(a == Some(1.0) && c.is_none());
        }
    }
}

// ================================================================================================
// Shape 6: six numeric types, pub struct with pub fields
mod shape6 {
    use super::*;

    #[derive(Animate, Clone, Debug, Default, PartialEq)]
    pub struct Six {
        pub f: f32,
        pub d: f64,
        pub b: u8,
        pub s: i16,
        pub i: i32,
        pub u: u32,
    }

    stubs! {
        fn update_contract() {
            ds::reset();
            let (sf, sd, sb, ss, si, su) = (any_f32(), any_f64(), kani::any::<u8>(), kani::any::<i16>(), kani::any::<i32>(), kani::any::<u32>());
            let (t_f, t_d, t_b, t_s, t_i, t_u) = (script(sf), script(sd), script(sb), script(ss), script(si), script(su));
            let had = [t_f.verif_map_len() > 0, t_d.verif_map_len() > 0, t_b.verif_map_len() > 0, t_s.verif_map_len() > 0, t_i.verif_map_len() > 0, t_u.verif_map_len() > 0];
            let tl = SixTimeline { boundary_times: vec![], timescale: TimeScale::new(1.0, 0.0, Repeat::Infinite, true), t_f, t_d, t_b, t_s, t_i, t_u };
            let pf = script_prepare_frame();
            let time = any_f32();
            let before = Six { f: any_f32(), d: any_f64(), b: kani::any(), s: kani::any(), i: kani::any(), u: kani::any() };
            let mut target = before.clone();
            tl.update(&mut target, time);
            assert!(value_at_args_were(pf, 6));
            let on = pf.is_some();
            assert!(target.f == if on && had[0] { sf } else { before.f });
            assert!(target.d == if on && had[1] { sd } else { before.d });
            assert!(target.b == if on && had[2] { sb } else { before.b });
            assert!(target.s == if on && had[3] { ss } else { before.s });
            assert!(target.i == if on && had[4] { si } else { before.i });
            assert!(target.u == if on && had[5] { su } else { before.u });
        }
    }

    stubs! {
        fn start_with_contract() {
            ds::reset();
            let mut tl = SixTimeline { boundary_times: vec![], timescale: TimeScale::new(1.0, 0.0, Repeat::None, false),
                t_f: script(any_f32()), t_d: script(any_f64()), t_b: script(kani::any()), t_s: script(kani::any()), t_i: script(kani::any()), t_u: script(kani::any()) };
            let v = Six { f: any_f32(), d: any_f64(), b: kani::any(), s: kani::any(), i: kani::any(), u: kani::any() };
            tl.start_with(&v);
            assert!(tl.t_f.verif_override_value() == Some(v.f) && tl.t_d.verif_override_value() == Some(v.d));
            assert!(tl.t_b.verif_override_value() == Some(v.b) && tl.t_s.verif_override_value() == Some(v.s));
            assert!(tl.t_i.verif_override_value() == Some(v.i) && tl.t_u.verif_override_value() == Some(v.u));
        }
    }
}

// ================================================================================================
// Two fields of the SAME type (a body that mixes up same-typed fields still type-checks)
mod pair {
    use super::*;

    #[derive(Animate, Clone, Debug, Default, PartialEq)]
    pub struct Pair {
        x: f32,
        tag: u8,
        y: f32,
        z: f32,
    }

    stubs! {
        fn update_contract() {
            ds::reset();
            let (sx, st, sy, sz) = (any_f32(), kani::any::<u8>(), any_f32(), any_f32());
            let (t_x, t_tag, t_y, t_z) = (script(sx), script(st), script(sy), script(sz));
            let had = [t_x.verif_map_len() > 0, t_tag.verif_map_len() > 0, t_y.verif_map_len() > 0, t_z.verif_map_len() > 0];
            let tl = PairTimeline { boundary_times: vec![0.5], timescale: TimeScale::new(1.0, 0.0, Repeat::None, false), t_x, t_tag, t_y, t_z };
            let pf = script_prepare_frame();
            let before = Pair { x: any_f32(), tag: kani::any(), y: any_f32(), z: any_f32() };
            let mut target = before.clone();
            tl.update(&mut target, any_f32());
            assert!(value_at_args_were(pf, 4));
            let on = pf.is_some();
            assert!(target.x == if on && had[0] { sx } else { before.x });
            assert!(target.tag == if on && had[1] { st } else { before.tag });
            assert!(target.y == if on && had[2] { sy } else { before.y });
            assert!(target.z == if on && had[3] { sz } else { before.z });
        }
    }

    stubs! {
        /// keyframe_from / setters / build / start_with keep same-typed fields apart.
        fn wiring_contract() {
            ds::reset();
            let v = Pair { x: any_f32(), tag: kani::any(), y: any_f32(), z: any_f32() };
            let PairKeyframeData { x, tag, y, z } = mina::KeyframeBuilder::build(&Pair::keyframe_from(&v, 0.5)).verif_data();
            assert!(x == Some(v.x) && tag == Some(v.tag) && y == Some(v.y) && z == Some(v.z));
            let (a, b, c) = (any_f32(), any_f32(), any_f32());
            let PairKeyframeData { x, tag, y, z } = mina::KeyframeBuilder::build(&Pair::keyframe(0.5).x(a).y(b).z(c)).verif_data();
            assert!(x == Some(a) && y == Some(b) && z == Some(c) && tag.is_none());
            let mut tl = Pair::timeline().keyframe(Pair::keyframe_from(&v, 0.5)).build();
            assert!(tl.t_x.verif_frame_value(1) == Some(v.x) && tl.t_y.verif_frame_value(1) == Some(v.y) && tl.t_z.verif_frame_value(1) == Some(v.z));
            assert!(tl.t_tag.verif_frame_value(1) == Some(v.tag));
            let w = Pair { x: any_f32(), tag: kani::any(), y: any_f32(), z: any_f32() };
            tl.start_with(&w);
            assert!(tl.t_x.verif_override_value() == Some(w.x) && tl.t_y.verif_override_value() == Some(w.y) && tl.t_z.verif_override_value() == Some(w.z));
            assert!(tl.t_tag.verif_override_value() == Some(w.tag));
        }
    }
}

// ================================================================================================
// Remote proxy
mod remote {
    use super::*;

    #[derive(Clone, Debug, Default, PartialEq)]
    pub struct Far {
        pub x: f32,
        pub y: u8,
        pub untouched: bool,
    }

    #[derive(Animate)]
    #[animate(remote = "Far")]
    struct FarProxy {
        x: f32,
        y: u8,
    }

    stubs! {
        /// C17: with `remote`, the generated timeline's Target is the remote type.
        fn update_contract() {
            ds::reset();
            let (sx, sy) = (any_f32(), kani::any::<u8>());
            let (t_x, t_y) = (script(sx), script(sy));
            let (hx, hy) = (t_x.verif_map_len() > 0, t_y.verif_map_len() > 0);
            let tl = FarTimeline { boundary_times: vec![0.0], timescale: TimeScale::new(1.0, 0.0, Repeat::None, false), t_x, t_y };
            let pf = script_prepare_frame();
            let before = Far { x: any_f32(), y: kani::any(), untouched: kani::any() };
            let mut target: Far = before.clone();
            tl.update(&mut target, any_f32());
            assert!(value_at_args_were(pf, 2));
            assert!(target.x == if pf.is_some() && hx { sx } else { before.x });
            assert!(target.y == if pf.is_some() && hy { sy } else { before.y });
            assert!(target.untouched == before.untouched);
        }
    }

    stubs! {
        fn keyframe_from_contract() {
            ds::reset();
            let v = Far { x: any_f32(), y: kani::any(), untouched: kani::any() };
            let tl = FarProxy::timeline().keyframe(FarProxy::keyframe_from(&v, 0.5)).build();
            assert!(tl.t_x.verif_frame_value(1) == Some(v.x) && tl.t_y.verif_frame_value(1) == Some(v.y));
        }
    }
}

/// Canary: must FAIL (claims the excluded field is written).
mod canary {
    use super::*;
    #[derive(Animate, Clone, Debug, Default, PartialEq)]
    pub struct Cn {
        #[animate]
        a: u8,
        b: u8,
    }
    stubs! {
        fn canary_must_fail() {
            ds::reset();
            let tl = CnTimeline { boundary_times: vec![0.0], timescale: TimeScale::new(1.0, 0.0, Repeat::None, false), t_a: SubTimeline::verif_scripted(Some(5)) };
            unsafe { ds::PF_RESULT_SOME = true; ds::PF_NT = 0.0; ds::PF_IDX = 0; ds::PF_FLAG = false; }
            let mut t = Cn { a: 1, b: 2 };
            tl.update(&mut t, 0.0);
            assert!(t.a == 1, "canary: deliberately false");
        }
    }
}
