//! L-MACRO — `timeline!` / `animator!` against the builder API on rustc's REAL expansions (C15, C16).
//! Bounded over sentences: a family of macro sentences covering every grammar production
//! (s / ms suffixes, `for`, `after`, `Nx`, `infinite`, `reverse`, default easing path, `from`,
//! `to`, `N%`, int / float / underscored literals, argument permutations, bracketed merge lists;
//! `default(state, {..})`, `default(state, expr)`, `default(state)`, no default clause, `default`
//! keyframe bodies, `A | B =>` arms, merged arms).  For each sentence the macro-built object is
//! compared STRUCTURALLY with the builder-built one: `SubTimeline::from_keyframes` is replaced by a
//! capturing stub that records every keyframe (position, per-field value or absence, easing),
//! the default value and the default easing, so equality of the captures plus equality of the
//! time scale and boundary times is equality of everything the timeline was built from.
//! Not covered: that ill-formed sentences are rejected at compile time (a harness cannot contain
//! code that does not compile), and sentences outside the family.
#![cfg(kani)]
#![allow(dead_code)]

use mina::prelude::*;
use mina_core::timeline::MergedTimeline as MT;

#[derive(Animate, Clone, Debug, Default, PartialEq)]
struct Style {
    x: u8,
    y: u8,
}

/// One-field target for the merged-list sentences (keeps the number of captured sub-timelines small).
#[derive(Animate, Clone, Debug, Default, PartialEq)]
struct Dot {
    r: u8,
}
fn same_dot(a: &DotTimeline, b: &DotTimeline) -> bool {
    a.boundary_times == b.boundary_times && a.timescale.verif_same(&b.timescale) && a.t_r.verif_same_capture(&b.t_r)
}

#[derive(Clone, Debug, Default, Eq, PartialEq, State)]
enum Ui {
    #[default]
    Idle,
    Hover,
    Press,
}

fn same(a: &StyleTimeline, b: &StyleTimeline) -> bool {
    a.boundary_times == b.boundary_times && a.timescale.verif_same(&b.timescale) && a.t_x.verif_same_capture(&b.t_x) && a.t_y.verif_same_capture(&b.t_y)
}
fn same_merged(a: &MT<StyleTimeline>, b: &MT<StyleTimeline>) -> bool {
    let (ta, tb) = (a.timelines_ref(), b.timelines_ref());
    if ta.len() != tb.len() {
        return false;
    }
    let mut i = 0;
    while i < ta.len() {
        if !same(&ta[i], &tb[i]) {
            return false;
        }
        i += 1;
    }
    true
}

macro_rules! eq_harness {
    ($name:ident, $body:block) => {
        #[kani::proof]
        #[kani::unwind(8)]
        #[kani::stub(mina_core::timeline_helpers::SubTimeline::from_keyframes, mina_core::timeline_helpers::SubTimeline::verif_from_keyframes_capture)]
        #[kani::stub(mina_core::timeline_helpers::SubTimeline::override_start_value, mina_core::timeline_helpers::verif_subtimeline::derive_support::override_start_value_stub)]
        fn $name() $body
    };
}

// ---- timeline! ------------------------------------------------------------------------------------

eq_harness!(timeline_basic_seconds_from_to, {
    let m = timeline!(Style 2s from { x: 1 } to { x: 9 });
    let b = Style::timeline().duration_seconds(2.0).keyframe(Style::keyframe(0.0).x(1)).keyframe(Style::keyframe(1.0).x(9)).build();
    assert!(same(&m, &b));
});

eq_harness!(timeline_all_arguments, {
    let m = timeline!(Style 500ms after 250ms 3x reverse Easing::OutQuad from { x: 1, y: 2 } 25% { y: 7 } to { x: 9 });
    let b = Style::timeline()
        .duration_seconds(500.0 * 0.001)
        .delay_seconds(250.0 * 0.001)
        .default_easing(Easing::OutQuad)
        .repeat(Repeat::Times(3))
        .reverse(true)
        .keyframe(Style::keyframe(0.0).x(1).y(2))
        .keyframe(Style::keyframe(25.0 * 0.01).y(7))
        .keyframe(Style::keyframe(1.0).x(9))
        .build();
    assert!(same(&m, &b));
    // the documented reading: 500 ms is half a second, 250 ms a quarter
    assert!(m.cycle_duration() == Some(0.5) && m.delay() == 0.25 && m.repeat() == Repeat::Times(3));
});

eq_harness!(timeline_arguments_in_any_order, {
    let m1 = timeline!(Style 500ms after 250ms 3x reverse Easing::OutQuad from { x: 1 } to { x: 9 });
    let m2 = timeline!(Style reverse Easing::OutQuad 3x after 250ms 500ms from { x: 1 } to { x: 9 });
    let m3 = timeline!(Style Easing::OutQuad after 250ms reverse for 500ms 3x from { x: 1 } to { x: 9 });
    assert!(same(&m1, &m2) && same(&m1, &m3));
});

eq_harness!(timeline_for_float_infinite_percent, {
    let m = timeline!(Style for 1.5s infinite 50% { x: 5 });
    let b = Style::timeline().duration_seconds(1.5).repeat(Repeat::Infinite).keyframe(Style::keyframe(50.0 * 0.01).x(5)).build();
    assert!(same(&m, &b));
    assert!(m.duration() == f32::INFINITY);
});

eq_harness!(timeline_underscored_literals, {
    let m = timeline!(Style 1_000ms after 2s 1x 100% { x: 3 });
    let b = Style::timeline().duration_seconds(1000.0 * 0.001).delay_seconds(2.0).repeat(Repeat::Times(1)).keyframe(Style::keyframe(100.0 * 0.01).x(3)).build();
    assert!(same(&m, &b));
    assert!(m.cycle_duration() == Some(1.0) && m.delay() == 2.0);
});

eq_harness!(timeline_defaults_when_omitted, {
    let m = timeline!(Style to { y: 4 });
    let b = Style::timeline().keyframe(Style::keyframe(1.0).y(4)).build();
    assert!(same(&m, &b));
    assert!(m.cycle_duration() == Some(1.0) && m.delay() == 0.0 && m.repeat() == Repeat::None);
});

eq_harness!(timeline_merged_list, {
    let m = timeline!(Dot [1s to { r: 3 }, 2s after 1s Easing::In to { r: 4 }]);
    let b = MT::of([
        Dot::timeline().duration_seconds(1.0).keyframe(Dot::keyframe(1.0).r(3)).build(),
        Dot::timeline().duration_seconds(2.0).delay_seconds(1.0).default_easing(Easing::In).keyframe(Dot::keyframe(1.0).r(4)).build(),
    ]);
    let (tm, tb) = (m.timelines_ref(), b.timelines_ref());
    assert!(tm.len() == 2 && tb.len() == 2);
    assert!(same_dot(&tm[0], &tb[0]) && same_dot(&tm[1], &tb[1]));
});

// ---- animator! ------------------------------------------------------------------------------------

fn same_animator(a: &EnumStateAnimator<Ui, StyleTimeline>, b: &EnumStateAnimator<Ui, StyleTimeline>) -> bool {
    if !(a.current_state() == b.current_state() && a.current_values() == b.current_values() && a.verif_time_and_pause() == b.verif_time_and_pause()) {
        return false;
    }
    for s in [Ui::Idle, Ui::Hover, Ui::Press] {
        match (a.verif_timeline_of(&s), b.verif_timeline_of(&s)) {
            (None, None) => {}
            (Some(x), Some(y)) => {
                if !same_merged(x, y) {
                    return false;
                }
            }
            _ => return false,
        }
    }
    true
}

eq_harness!(animator_inline_defaults_and_arms, {
    let m = animator!(Style {
        default(Ui::Hover, { x: 25 }),
        Ui::Idle => 5s from { x: 50 } to { x: 100 },
        Ui::Hover => 2s Easing::Out to { y: 80 }
    });
    let b = StateAnimatorBuilder::new()
        .from_state(Ui::Hover)
        .from_values(Style { x: 25, ..Default::default() })
        .on(Ui::Idle, Style::timeline().duration_seconds(5.0).keyframe(Style::keyframe(0.0).x(50)).keyframe(Style::keyframe(1.0).x(100)))
        .on(Ui::Hover, Style::timeline().duration_seconds(2.0).default_easing(Easing::Out).keyframe(Style::keyframe(1.0).y(80)))
        .build();
    assert!(same_animator(&m, &b));
    assert!(m.verif_timeline_of(&Ui::Press).is_none());
});

eq_harness!(animator_default_keyframe_and_multi_state_arm, {
    let m = animator!(Style {
        default(Ui::Idle, { x: 7, y: 9 }),
        Ui::Idle => 5.0s from default to { x: 100 },
        Ui::Hover | Ui::Press => 2s after 1s to default
    });
    let d = Style { x: 7, y: 9 };
    let b = StateAnimatorBuilder::new()
        .from_state(Ui::Idle)
        .from_values(d.clone())
        .on(Ui::Idle, Style::timeline().duration_seconds(5.0).keyframe(Style::keyframe_from(&d, 0.0)).keyframe(Style::keyframe(1.0).x(100)))
        .on(Ui::Hover, Style::timeline().duration_seconds(2.0).delay_seconds(1.0).keyframe(Style::keyframe_from(&d, 1.0)))
        .on(Ui::Press, Style::timeline().duration_seconds(2.0).delay_seconds(1.0).keyframe(Style::keyframe_from(&d, 1.0)))
        .build();
    assert!(same_animator(&m, &b));
});

eq_harness!(animator_merged_arm, {
    let m = animator!(Dot {
        default(Ui::Press),
        Ui::Press => [1s to { r: 3 }, 2s to { r: 4 }]
    });
    let b = StateAnimatorBuilder::new()
        .from_state(Ui::Press)
        .from_values(Dot::default())
        .on(Ui::Press, MT::of([
            Dot::timeline().duration_seconds(1.0).keyframe(Dot::keyframe(1.0).r(3)).build(),
            Dot::timeline().duration_seconds(2.0).keyframe(Dot::keyframe(1.0).r(4)).build(),
        ]))
        .build();
    assert!(m.current_state() == b.current_state() && m.current_values() == b.current_values());
    let (x, y) = (m.verif_timeline_of(&Ui::Press).unwrap().timelines_ref(), b.verif_timeline_of(&Ui::Press).unwrap().timelines_ref());
    assert!(x.len() == 2 && y.len() == 2 && same_dot(&x[0], &y[0]) && same_dot(&x[1], &y[1]));
    assert!(m.verif_timeline_of(&Ui::Idle).is_none() && m.verif_timeline_of(&Ui::Hover).is_none());
});

eq_harness!(animator_three_state_arm_out_of_order, {
    // three states in one arm, listed in an order different from the enum's, after a single-state arm for none of them;
    // `default` as the body of an N% keyframe
    let m = animator!(Style {
        default(Ui::Press, { y: 9 }),
        Ui::Press | Ui::Idle | Ui::Hover => 2s 50% default to { x: 100 }
    });
    let d = Style { y: 9, ..Default::default() };
    let tl = || Style::timeline().duration_seconds(2.0).keyframe(Style::keyframe_from(&d, 50.0 * 0.01)).keyframe(Style::keyframe(1.0).x(100));
    let b = StateAnimatorBuilder::new()
        .from_state(Ui::Press)
        .from_values(d.clone())
        .on(Ui::Press, tl())
        .on(Ui::Idle, tl())
        .on(Ui::Hover, tl())
        .build();
    assert!(same_animator(&m, &b));
});

eq_harness!(animator_multi_state_merged_arm, {
    // a bracketed list under `A | B`, with `default` inside the list member
    let m = animator!(Dot {
        default(Ui::Idle, { r: 2 }),
        Ui::Hover | Ui::Press => [2s after 1s to default]
    });
    let d = Dot { r: 2 };
    let ml = || MT::of([Dot::timeline().duration_seconds(2.0).delay_seconds(1.0).keyframe(Dot::keyframe_from(&d, 1.0)).build()]);
    let b = StateAnimatorBuilder::new().from_state(Ui::Idle).from_values(d.clone()).on(Ui::Hover, ml()).on(Ui::Press, ml()).build();
    assert!(m.current_state() == b.current_state() && m.current_values() == b.current_values() && m.verif_time_and_pause() == b.verif_time_and_pause());
    for s in [Ui::Hover, Ui::Press] {
        let (x, y) = (m.verif_timeline_of(&s).unwrap().timelines_ref(), b.verif_timeline_of(&s).unwrap().timelines_ref());
        assert!(x.len() == 1 && y.len() == 1 && same_dot(&x[0], &y[0]));
    }
    assert!(m.verif_timeline_of(&Ui::Idle).is_none());
});

eq_harness!(animator_state_in_two_arms_later_arm_wins, {
    // arms are `.on` calls in the order written: a state named again in a later arm gets the later timeline
    let m = animator!(Style {
        Ui::Idle | Ui::Hover => 2s to { x: 100 },
        Ui::Hover => 1s to { y: 5 }
    });
    let b = StateAnimatorBuilder::new()
        .from_values(Style::default())
        .on(Ui::Idle, Style::timeline().duration_seconds(2.0).keyframe(Style::keyframe(1.0).x(100)))
        .on(Ui::Hover, Style::timeline().duration_seconds(2.0).keyframe(Style::keyframe(1.0).x(100)))
        .on(Ui::Hover, Style::timeline().duration_seconds(1.0).keyframe(Style::keyframe(1.0).y(5)))
        .build();
    assert!(same_animator(&m, &b));
    assert!(m.verif_timeline_of(&Ui::Hover).unwrap().cycle_duration() == Some(1.0));
    assert!(m.verif_timeline_of(&Ui::Idle).unwrap().cycle_duration() == Some(2.0));
});

eq_harness!(animator_expression_default_and_no_default, {
    let init = Style { x: 200, y: 1 };
    let m = animator!(Style {
        default(Ui::Press, init.clone()),
        Ui::Press => 1s to { y: 2 }
    });
    let b = StateAnimatorBuilder::new().from_state(Ui::Press).from_values(init.clone())
        .on(Ui::Press, Style::timeline().duration_seconds(1.0).keyframe(Style::keyframe(1.0).y(2))).build();
    assert!(same_animator(&m, &b));
    let m2 = animator!(Style { Ui::Hover => 1s to { y: 2 } });
    let b2 = StateAnimatorBuilder::new().from_values(Style::default())
        .on(Ui::Hover, Style::timeline().duration_seconds(1.0).keyframe(Style::keyframe(1.0).y(2))).build();
    assert!(same_animator(&m2, &b2));
    assert!(*m2.current_state() == Ui::Idle && *m2.current_values() == Style::default());
    let m3 = animator!(Style { default(Ui::Hover), Ui::Hover => 1s to { y: 2 } });
    assert!(*m3.current_state() == Ui::Hover && *m3.current_values() == Style::default());
});

// Canary: must FAIL (a sentence compared with a deliberately different builder chain).
eq_harness!(canary_must_fail, {
    let m = timeline!(Style 500ms to { x: 9 });
    let b = Style::timeline().duration_seconds(500.0).keyframe(Style::keyframe(1.0).x(9)).build();
    assert!(same(&m, &b), "canary: deliberately false");
});
