//! C14 (glam): the vector impls interpolate component-wise — each component of the result is
//! the scalar `lerp` of the corresponding components (bit-for-bit).  Child module of `glam`
//! (feature "glam").  Types covered: the three macros' shapes (2, 3, 4 components) for f32, f64,
//! i32, u32, i64, u64 element types; SIMD-backed Vec3A/Vec4/Quat are not covered.

use super::*;

macro_rules! any_f {
    ($t:ty) => {{
        let v: $t = kani::any();
        kani::assume(v.is_finite() && v.abs() <= 1.0e6);
        v
    }};
}
macro_rules! any_i {
    ($t:ty) => {{
        let v: $t = kani::any();
        kani::assume((v as i128) > -4096 && (v as i128) < 4096);
        v
    }};
}
fn unit() -> f32 {
    let x: f32 = kani::any();
    kani::assume(x >= 0.0 && x <= 1.0);
    x
}

macro_rules! comp2 {
    ($name:ident, $v:ty, $gen:ident, $e:ty) => {
        #[kani::proof]
        #[kani::solver(cvc5)]
        fn $name() {
            let a = <$v>::new($gen!($e), $gen!($e));
            let b = <$v>::new($gen!($e), $gen!($e));
            let x = unit();
            let r = Lerp::lerp(&a, &b, x);
            assert!(r.x == a.x.lerp(&b.x, x) && r.y == a.y.lerp(&b.y, x));
        }
    };
}
macro_rules! comp3 {
    ($name:ident, $v:ty, $gen:ident, $e:ty) => {
        #[kani::proof]
        #[kani::solver(cvc5)]
        fn $name() {
            let a = <$v>::new($gen!($e), $gen!($e), $gen!($e));
            let b = <$v>::new($gen!($e), $gen!($e), $gen!($e));
            let x = unit();
            let r = Lerp::lerp(&a, &b, x);
            assert!(r.x == a.x.lerp(&b.x, x) && r.y == a.y.lerp(&b.y, x) && r.z == a.z.lerp(&b.z, x));
        }
    };
}
macro_rules! comp4 {
    ($name:ident, $v:ty, $gen:ident, $e:ty) => {
        #[kani::proof]
        #[kani::solver(cvc5)]
        fn $name() {
            let a = <$v>::new($gen!($e), $gen!($e), $gen!($e), $gen!($e));
            let b = <$v>::new($gen!($e), $gen!($e), $gen!($e), $gen!($e));
            let x = unit();
            let r = Lerp::lerp(&a, &b, x);
            assert!(r.x == a.x.lerp(&b.x, x) && r.y == a.y.lerp(&b.y, x) && r.z == a.z.lerp(&b.z, x) && r.w == a.w.lerp(&b.w, x));
        }
    };
}

comp2!(vec2_componentwise, Vec2, any_f, f32);
comp2!(dvec2_componentwise, DVec2, any_f, f64);
comp2!(ivec2_componentwise, IVec2, any_i, i32);
comp2!(uvec2_componentwise, UVec2, any_i, u32);
comp2!(i64vec2_componentwise, I64Vec2, any_i, i64);
comp2!(u64vec2_componentwise, U64Vec2, any_i, u64);
comp3!(vec3_componentwise, Vec3, any_f, f32);
comp3!(dvec3_componentwise, DVec3, any_f, f64);
comp3!(ivec3_componentwise, IVec3, any_i, i32);
comp3!(uvec3_componentwise, UVec3, any_i, u32);
comp3!(i64vec3_componentwise, I64Vec3, any_i, i64);
comp3!(u64vec3_componentwise, U64Vec3, any_i, u64);
comp4!(dvec4_componentwise, DVec4, any_f, f64);
comp4!(ivec4_componentwise, IVec4, any_i, i32);
comp4!(uvec4_componentwise, UVec4, any_i, u32);
comp4!(i64vec4_componentwise, I64Vec4, any_i, i64);
comp4!(u64vec4_componentwise, U64Vec4, any_i, u64);
