//! L-SUBQ — proof harnesses for the float-arithmetic half of `SubTimeline`
//! (`interpolate_value`, `value_at`) and bounded-shape glue checks (C01, C02, C08, C10, C20).
//! Child module of `timeline_helpers`: reads and builds the private fields directly.
//! `from_keyframes`, `get_bounding_frames`, `get_frame`, `override_start_value` are proved for
//! every size by route V (Verus); `spec_frame_at` / `spec_bounding` below are the executable
//! transcription of the Verus spec functions of the same name.

use super::*;
use crate::easing::verif_easing::{builtin, N_BUILTIN};

// -- probe types ------------------------------------------------------------------------------

/// A value that records how it was interpolated: which two values and at which fraction.
#[derive(Clone, Copy, Debug, PartialEq)]
pub(crate) struct Probe {
    pub id: u8,
    pub other: u8,
    pub x: f32,
}
impl Probe {
    pub(crate) fn leaf(id: u8) -> Self {
        Probe { id, other: 255, x: -1.0 }
    }
}
impl Lerp for Probe {
    fn lerp(&self, y1: &Self, x: f32) -> Self {
        Probe { id: self.id, other: y1.id, x }
    }
}

/// An easing that reveals which easing object was used: calc(x) = x + tag.
#[derive(Clone, Debug)]
pub(crate) struct TagEasing(pub f32);
impl EasingFunction for TagEasing {
    fn calc(&self, x: f32) -> f32 {
        x + self.0
    }
}
pub(crate) fn tag(t: f32) -> Easing {
    Easing::Custom(Box::new(TagEasing(t)))
}

fn pos01(t: f32) -> bool {
    t >= 0.0 && t <= 1.0
}

// -- interpolate_value: complete (two frames, all times) ---------------------------------------

/// C01: between two frames the value is start.lerp(end, easing_of_START((t - t0)/(t1 - t0)));
/// the easing of the end frame is never used.
#[kani::proof]
#[kani::solver(cvc5)]
pub(crate) fn interpolate_uses_start_easing_and_linear_fraction() {
    let t0: f32 = kani::any();
    let t1: f32 = kani::any();
    let t: f32 = kani::any();
    kani::assume(pos01(t0) && pos01(t1) && pos01(t) && t0 < t1 && t0 <= t && t <= t1);
    let s = SplitKeyframe::new(t0, Probe::leaf(1), tag(10.0));
    let e = SplitKeyframe::new(t1, Probe::leaf(2), tag(20.0));
    let r = interpolate_value(&[&s, &e], t);
    assert!(r.id == 1 && r.other == 2);
    let frac = (t - t0) / (t1 - t0);
    assert!(r.x == frac + 10.0);
}

/// C02 (pure float lemma): the fraction `(t - t0) / (t1 - t0)` handed to the easing is exactly
/// 0 at the start frame and exactly 1 at the end frame, and lies in [0,1] in between.
#[kani::proof]
#[kani::solver(cvc5)]
pub(crate) fn lemma_fraction_endpoints() {
    let t0: f32 = kani::any();
    let t1: f32 = kani::any();
    kani::assume(pos01(t0) && pos01(t1) && t0 < t1);
    let d = t1 - t0;
    assert!(d > 0.0 && d <= 1.0);
    assert!((t0 - t0) / d == 0.0);
    assert!((t1 - t0) / d == 1.0);
}

/// ... and in between it stays within [0,1].
#[kani::proof]
pub(crate) fn lemma_fraction_range() {
    let t0: f32 = kani::any();
    let t1: f32 = kani::any();
    let t: f32 = kani::any();
    kani::assume(pos01(t0) && pos01(t1) && t0 < t1 && t0 <= t && t <= t1);
    let x = (t - t0) / (t1 - t0);
    assert!(x >= 0.0 && x <= 1.0);
}

/// C02: a zero-length segment returns the start value itself (no lerp, no easing, no 0/0).
#[kani::proof]
pub(crate) fn interpolate_zero_length_segment_returns_start() {
    let t0: f32 = kani::any();
    let t: f32 = kani::any();
    kani::assume(pos01(t0) && pos01(t));
    let s = SplitKeyframe::new(t0, Probe::leaf(1), tag(10.0));
    let e = SplitKeyframe::new(t0, Probe::leaf(2), tag(20.0));
    let r = interpolate_value(&[&s, &e], t);
    assert!(r == Probe::leaf(1));
    let r2 = interpolate_value(&[&s, &s], t);
    assert!(r2 == Probe::leaf(1));
}

// -- executable transcription of the Verus spec functions ---------------------------------------

pub(crate) fn spec_frame_at<V: Clone>(s: &SubTimeline<V>, index: usize, flag: bool) -> Option<&SplitKeyframe<V>> {
    if flag && index == 0 && s.start_frame_override.is_some() {
        s.start_frame_override.as_ref()
    } else if index < s.frames.len() {
        Some(&s.frames[index])
    } else {
        None
    }
}

pub(crate) fn wf<V: Clone>(s: &SubTimeline<V>) -> bool {
    if s.frames.is_empty() && !(s.frame_index_map.is_empty() && s.start_frame_override.is_none()) {
        return false;
    }
    let mut i = 0;
    while i < s.frame_index_map.len() {
        if s.frame_index_map[i] >= s.frames.len() {
            return false;
        }
        i += 1;
    }
    true
}

// -- value_at ------------------------------------------------------------------------------
// (the glue clamp -> lookup -> interpolate is verified for every size by route V)

/// C08: an empty sub-timeline yields None for every time, hint and flag (so the generated
/// `update` never assigns the field).
#[kani::proof]
pub(crate) fn value_at_empty_is_none() {
    let s: SubTimeline<Probe> = SubTimeline { frames: vec![], frame_index_map: vec![], start_frame_override: None };
    let t: f32 = kani::any();
    let hint: usize = kani::any();
    let flag: bool = kani::any();
    assert!(s.value_at(t, hint, flag).is_none());
}

/// Canary: must FAIL (claims the END frame's easing is used).
#[kani::proof]
pub(crate) fn canary_must_fail() {
    let s = SplitKeyframe::new(0.0, Probe::leaf(1), tag(10.0));
    let e = SplitKeyframe::new(1.0, Probe::leaf(2), tag(20.0));
    let r = interpolate_value(&[&s, &e], 0.5);
    assert!(r.x >= 20.0, "canary: deliberately false");
}

// -- support for the derive-output harnesses (mina crate, tests/verif_derive.rs) -----------------
// The generated timeline is verified modularly: its callees `prepare_frame`,
// `SubTimeline::{value_at, override_start_value, from_keyframes}` are replaced by the scripted /
// recording functions below, so the harness proves the *generated glue* against every possible
// behaviour of the callees (their own behaviour is what the other layers prove).

pub mod derive_support {
    use super::*;
    use crate::time_scale::TimeScale;
    use crate::timeline::Keyframe;

    pub static mut VA_CALLS: u32 = 0;
    pub static mut VA_NT: f32 = 0.0;
    pub static mut VA_IDX: usize = 0;
    pub static mut VA_FLAG: bool = false;
    pub static mut VA_CONSISTENT: bool = true;

    pub static mut PF_RESULT_SOME: bool = false;
    pub static mut PF_NT: f32 = 0.0;
    pub static mut PF_IDX: usize = 0;
    pub static mut PF_FLAG: bool = false;
    pub static mut PF_CALLS: u32 = 0;
    pub static mut PF_TIME: f32 = 0.0;
    pub static mut PF_BT_LEN: usize = 0;
    pub static mut PF_TS_DELAY: f32 = 0.0;

    pub fn reset() {
        unsafe {
            VA_CALLS = 0;
            VA_CONSISTENT = true;
            PF_CALLS = 0;
        }
    }

    impl<V: Clone> SubTimeline<V> {
        /// A sub-timeline whose (stubbed) `value_at` answers `answer`.
        pub fn verif_scripted(answer: Option<V>) -> Self {
            match answer {
                Some(v) => SubTimeline {
                    frames: vec![SplitKeyframe::new(0.0, v, Easing::Linear)],
                    frame_index_map: vec![0],
                    start_frame_override: None,
                },
                None => SubTimeline { frames: vec![], frame_index_map: vec![], start_frame_override: None },
            }
        }
        pub fn verif_override_value(&self) -> Option<V> {
            self.start_frame_override.as_ref().map(|f| f.value.clone())
        }
        pub fn verif_frame_value(&self, i: usize) -> Option<V> {
            self.frames.get(i).map(|f| f.value.clone())
        }
        pub fn verif_map_len(&self) -> usize {
            self.frame_index_map.len()
        }
    }

    /// Stub for `SubTimeline::value_at`: scripted answer, arguments recorded.
    pub fn value_at_stub<Value: Clone + Lerp>(s: &SubTimeline<Value>, normalized_time: f32, index_hint: usize, enable_start_override: bool) -> Option<Value> {
        unsafe {
            if VA_CALLS == 0 {
                VA_NT = normalized_time;
                VA_IDX = index_hint;
                VA_FLAG = enable_start_override;
            } else if !(VA_NT == normalized_time && VA_IDX == index_hint && VA_FLAG == enable_start_override) {
                VA_CONSISTENT = false;
            }
            VA_CALLS += 1;
        }
        if s.frame_index_map.is_empty() {
            None
        } else {
            Some(s.frames[0].value.clone())
        }
    }

    /// Stub for `SubTimeline::override_start_value`: records the value unconditionally.
    pub fn override_start_value_stub<Value: Clone + Lerp>(s: &mut SubTimeline<Value>, value: Value) {
        s.start_frame_override = Some(SplitKeyframe::new(0.0, value, Easing::Linear));
    }

    /// Stub for `prepare_frame`: scripted result, arguments recorded.
    pub fn prepare_frame_stub(time: f32, boundary_times: &[f32], timescale: &TimeScale) -> Option<(f32, usize, bool)> {
        unsafe {
            PF_CALLS += 1;
            PF_TIME = time;
            PF_BT_LEN = boundary_times.len();
            PF_TS_DELAY = timescale.get_delay();
            if PF_RESULT_SOME {
                Some((PF_NT, PF_IDX, PF_FLAG))
            } else {
                None
            }
        }
    }

    impl<Value: Clone + Lerp> SubTimeline<Value> {
        /// Stub for `SubTimeline::from_keyframes` (same generic structure as the original, which
        /// Kani's stubbing requires): frame 0 carries the default value it was given, frame 1 the
        /// value the getter extracts from the FIRST keyframe (or the default), the map length is
        /// the number of keyframes it was handed.
        pub fn verif_from_keyframes_stub<'a, Data: 'a + Clone + std::fmt::Debug, ValueFn>(
            keyframes: impl IntoIterator<Item = &'a Keyframe<Data>>,
            default_value: Value,
            get_value: ValueFn,
            default_easing: Easing,
        ) -> Self
        where
            ValueFn: Fn(&Data) -> Option<Value>,
        {
            let mut n = 0usize;
            let mut first: Option<Value> = None;
            for kf in keyframes.into_iter() {
                if n == 0 {
                    first = get_value(&kf.data);
                }
                n += 1;
            }
            let second = match first {
                Some(v) => v,
                None => default_value.clone(),
            };
            let mut map = Vec::new();
            let mut i = 0;
            while i < n {
                map.push(0usize);
                i += 1;
            }
            SubTimeline {
                frames: vec![
                    SplitKeyframe::new(0.0, default_value, default_easing.clone()),
                    SplitKeyframe::new(1.0, second, default_easing),
                ],
                frame_index_map: map,
                start_frame_override: None,
            }
        }
    }

    impl<Value: Clone + Lerp> SubTimeline<Value> {
        /// Second stub for `SubTimeline::from_keyframes` (macro-equivalence harnesses, C15/C16): captures
        /// EVERYTHING it was given — one frame per keyframe (position, the extracted value or the default,
        /// the keyframe's easing or the default), `map[i] = 1` iff keyframe i defines the property, and a
        /// final frame at position 2.0 holding the default value and default easing.
        pub fn verif_from_keyframes_capture<'a, Data: 'a + Clone + std::fmt::Debug, ValueFn>(
            keyframes: impl IntoIterator<Item = &'a Keyframe<Data>>,
            default_value: Value,
            get_value: ValueFn,
            default_easing: Easing,
        ) -> Self
        where
            ValueFn: Fn(&Data) -> Option<Value>,
        {
            let mut frames = Vec::new();
            let mut map = Vec::new();
            for kf in keyframes.into_iter() {
                let (v, defined) = match get_value(&kf.data) {
                    Some(v) => (v, 1usize),
                    None => (default_value.clone(), 0usize),
                };
                let e = match &kf.easing {
                    Some(e) => e.clone(),
                    None => default_easing.clone(),
                };
                frames.push(SplitKeyframe::new(kf.normalized_time, v, e));
                map.push(defined);
            }
            frames.push(SplitKeyframe::new(2.0, default_value, default_easing));
            SubTimeline { frames, frame_index_map: map, start_frame_override: None }
        }
    }

    impl<Value: Clone + PartialEq> SubTimeline<Value> {
        /// Structural equality of two captured sub-timelines (positions, values, easing variants,
        /// defined-flags, substituted start value).
        pub fn verif_same_capture(&self, other: &Self) -> bool {
            if self.frames.len() != other.frames.len() || self.frame_index_map.len() != other.frame_index_map.len() {
                return false;
            }
            let mut i = 0;
            while i < self.frames.len() {
                let (a, b) = (&self.frames[i], &other.frames[i]);
                if !(a.normalized_time == b.normalized_time && a.value == b.value && std::mem::discriminant(&a.easing) == std::mem::discriminant(&b.easing)) {
                    return false;
                }
                i += 1;
            }
            let mut j = 0;
            while j < self.frame_index_map.len() {
                if self.frame_index_map[j] != other.frame_index_map[j] {
                    return false;
                }
                j += 1;
            }
            match (&self.start_frame_override, &other.start_frame_override) {
                (None, None) => true,
                (Some(a), Some(b)) => a.value == b.value,
                _ => false,
            }
        }
    }
}
