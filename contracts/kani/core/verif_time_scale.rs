//! L-TS — contracts and proof harnesses for `TimeScale` (child module of `time_scale`, so it
//! reads the private fields).  Injected by tools/vlib.py; never part of a normal build.
//!
//! The pre/postconditions are written from the statements of C02/C03/C07/C10/C20, in the IEEE
//! f32 arithmetic the API is specified in.  Phase boundaries are exact; the interior of a
//! pass ("rises linearly") is stated with an absolute tolerance `TOL` so that a harmless
//! re-association of the float formula does not fail the contract.

use super::*;
use crate::timeline::Repeat;
use crate::verif_frem::{frem_current, frem_expect, frem_havoc};

/// 4 ulp at 1.0.
pub(crate) const TOL: f32 = 4.0 * f32::EPSILON;

// ---------------------------------------------------------------------------------------------
// Type invariant / valid configuration (C03, C20 domain)

pub(crate) fn valid_timescale(ts: &TimeScale) -> bool {
    ts.duration.is_finite() && ts.duration > 0.0 && ts.delay.is_finite()
}

pub(crate) fn pre_get_position(ts: &TimeScale, time: f32) -> bool {
    valid_timescale(ts) && time.is_finite() && (time - ts.delay).is_finite()
}

/// `repeats + 1` as the correctly rounded f32 of the mathematical integer (no wrap-around).
pub(crate) fn cycles_f32(repeat: Repeat) -> Option<f32> {
    match repeat {
        Repeat::None => Some(1.0),
        Repeat::Times(n) => Some((n as u64 + 1) as f32),
        Repeat::Infinite => None,
    }
}

/// cycle x (repeats+1), `None` for infinite repeat.
pub(crate) fn spec_span(ts: &TimeScale) -> Option<f32> {
    match cycles_f32(ts.repeat) {
        Some(c) => Some(ts.duration * c),
        None => None,
    }
}

/// The total duration as the API reports it: delay + cycle x (repeats+1) (C03), `None` for
/// infinite repeat.
pub(crate) fn spec_total(ts: &TimeScale) -> Option<f32> {
    match spec_span(ts) {
        Some(x) => Some(ts.delay + x),
        None => None,
    }
}

/// C03: "becomes terminal exactly when the time since the delay exceeds cycle x (repeats+1)" and
/// "the reported total duration agrees with that behaviour"; C07: "ended <=> time >= total
/// duration ... stays at the terminal values".  In f32 `time - delay > span` and
/// `time > delay + span` are two different roundings of the same real comparison and can differ
/// by one ulp; only the second can agree with what `get_duration` reports, so that is the reading
/// the contract takes: terminal exactly when the time exceeds the REPORTED total duration.
pub(crate) fn spec_is_terminal_given(_ts: &TimeScale, time: f32, total: Option<f32>) -> bool {
    match total {
        Some(d) => time > d,
        None => false,
    }
}

pub(crate) fn spec_is_terminal(ts: &TimeScale, time: f32) -> bool {
    spec_is_terminal_given(ts, time, spec_total(ts))
}

/// At the reported end instant, or at/after the end of the last cycle by the time since the delay
/// (the two roundings again): the position holds the end of the last cycle.
pub(crate) fn spec_at_end(ts: &TimeScale, time: f32) -> bool {
    let since = time - ts.delay;
    let by_total = match spec_total(ts) {
        Some(d) => time == d,
        None => false,
    };
    let by_span = match spec_span(ts) {
        Some(x) => since >= x,
        None => false,
    };
    by_total || by_span
}

/// Time within the current cycle, held at the full cycle length on exact multiples (C02) and at
/// the end of the last cycle.
pub(crate) fn spec_cycle_time(ts: &TimeScale, time: f32) -> f32 {
    let since = time - ts.delay;
    if spec_at_end(ts, time) {
        return ts.duration;
    }
    match ts.repeat {
        Repeat::None => since,
        _ => {
            let rem = frem_current();
            // `since / duration >= 1.0` is `since >= duration` (lemma ts_lemma_quotient_vs_compare)
            if rem == 0.0 && since / ts.duration >= 1.0 {
                ts.duration
            } else {
                rem
            }
        }
    }
}

/// "A later cycle has begun": more than one full cycle length has passed; at the end of the last
/// cycle, every cycle but the last has completed, so this is "there is more than one cycle".
pub(crate) fn spec_repeating(ts: &TimeScale, time: f32) -> bool {
    let since = time - ts.delay;
    match ts.repeat {
        Repeat::None => false,
        Repeat::Times(n) if spec_at_end(ts, time) => n > 0,
        // `since / duration > 1.0` is `since > duration` (same lemma)
        _ => since / ts.duration > 1.0,
    }
}

// -- postcondition clauses of get_position, one named obligation each -------------------------

/// C03: 0% (NotStarted) exactly while time < delay.
pub(crate) fn post_pos_not_started(ts: &TimeScale, time: f32, r: &TimeScalePosition) -> bool {
    matches!(r, TimeScalePosition::NotStarted) == (time < ts.delay)
}

/// C03/C07: terminal exactly when the time exceeds the reported total duration; never for Infinite.
pub(crate) fn post_pos_terminal(ts: &TimeScale, time: f32, r: &TimeScalePosition) -> bool {
    post_pos_terminal_given(ts, time, r, spec_total(ts))
}

/// The same clause with the total `delay + cycle x (repeats+1)` computed once by the caller.
pub(crate) fn post_pos_terminal_given(ts: &TimeScale, time: f32, r: &TimeScalePosition, total: Option<f32>) -> bool {
    matches!(r, TimeScalePosition::Ended(_)) == (!(time < ts.delay) && spec_is_terminal_given(ts, time, total))
}

/// C02: terminal position is 100%, or the original 0% for reversing timelines.
pub(crate) fn post_pos_terminal_value(ts: &TimeScale, _time: f32, r: &TimeScalePosition) -> bool {
    match r {
        TimeScalePosition::Ended(p) => *p == if ts.reverse { 0.0 } else { 1.0 },
        _ => true,
    }
}

/// C03/C20: the position lies in [0,1] (and is not NaN).
pub(crate) fn post_pos_range(_ts: &TimeScale, _time: f32, r: &TimeScalePosition) -> bool {
    match r {
        TimeScalePosition::Active(p, _) => *p >= 0.0 && *p <= 1.0,
        TimeScalePosition::Ended(p) => *p >= 0.0 && *p <= 1.0,
        TimeScalePosition::NotStarted => true,
    }
}

/// `p` is the value of the formula `q`, exactly at the ends of a pass, within `TOL` elsewhere.
fn matches_formula(p: f32, q: f32, exact: bool) -> bool {
    p == q || (!exact && (p - q).abs() <= TOL)
}

/// C03: rises linearly over one cycle; with reverse rises over the first half and falls
/// symmetrically over the second half; period = cycle duration (through `spec_cycle_time`).
/// C02: at the start and at the end of a pass the value is exactly that of the formula, which
/// is exactly 0% / 100% there (lemma `ts_lemma_endpoint_arithmetic`).
pub(crate) fn post_pos_value(ts: &TimeScale, time: f32, r: &TimeScalePosition) -> bool {
    match r {
        TimeScalePosition::Active(p, _) => {
            let ct = spec_cycle_time(ts, time);
            let ratio = ct / ts.duration;
            let at_end = ct == ts.duration || ct == 0.0;
            if !ts.reverse {
                matches_formula(*p, ratio, at_end)
            } else if ratio < 0.5 {
                matches_formula(*p, ratio * 2.0, at_end)
            } else if ratio > 0.5 {
                matches_formula(*p, (1.0 - ratio) * 2.0, at_end)
            } else {
                *p == 1.0
            }
        }
        _ => true,
    }
}

/// C10/C02: loop-state flags. `is_repeating` iff at least one full cycle has completed and a
/// later one has begun (the end instant of the first pass still belongs to the first pass);
/// `is_reversing` iff on the falling half of a reversing cycle.
pub(crate) fn post_pos_flags(ts: &TimeScale, time: f32, r: &TimeScalePosition) -> bool {
    match r {
        TimeScalePosition::Active(_, ls) => {
            let rep_ok = ls.is_repeating == spec_repeating(ts, time);
            let ratio = spec_cycle_time(ts, time) / ts.duration;
            let rev_ok = if !ts.reverse {
                !ls.is_reversing
            } else if ratio > 0.5 {
                ls.is_reversing
            } else if ratio < 0.5 {
                !ls.is_reversing
            } else {
                true
            };
            rep_ok && rev_ok
        }
        _ => true,
    }
}

pub(crate) fn is_reverse(ts: &TimeScale) -> bool {
    ts.reverse
}

impl TimeScale {
    /// Read access for the macro-equivalence harnesses (verification only).
    pub fn verif_same(&self, o: &TimeScale) -> bool {
        self.delay == o.delay && self.duration == o.duration && self.repeat == o.repeat && self.reverse == o.reverse
    }
}

/// C10: "first forward pass" = no later cycle has begun and the cycle is not on its falling
/// half; `None` exactly at the peak of a reversing cycle, where both readings give 100%.
pub(crate) fn spec_first_forward_pass(ts: &TimeScale, time: f32) -> Option<bool> {
    let repeating = spec_repeating(ts, time);
    if !ts.reverse {
        Some(!repeating)
    } else {
        let ratio = spec_cycle_time(ts, time) / ts.duration;
        if ratio > 0.5 {
            Some(false)
        } else if ratio < 0.5 {
            Some(!repeating)
        } else {
            None
        }
    }
}

// -- get_duration ------------------------------------------------------------------------------

/// C03: total duration = delay + cycle x (repeats+1), infinite for infinite repeat.
pub(crate) fn post_get_duration(ts: &TimeScale, r: f32) -> bool {
    match cycles_f32(ts.repeat) {
        None => r == f32::INFINITY,
        Some(c) => r == ts.delay + ts.duration * c,
    }
}

// ---------------------------------------------------------------------------------------------
// Symbolic values

/// A symbolic position built from scalars (not via the derived `Arbitrary` of the enum, whose
/// union encoding the SMT back end cannot byte-extract floats from).
pub(crate) fn any_position() -> TimeScalePosition {
    let k: u8 = kani::any();
    let p: f32 = kani::any();
    match k {
        0 => TimeScalePosition::NotStarted,
        1 => TimeScalePosition::Active(
            p,
            TimeScaleLoopState { is_repeating: kani::any(), is_reversing: kani::any() },
        ),
        _ => TimeScalePosition::Ended(p),
    }
}

pub(crate) fn any_timescale() -> TimeScale {
    TimeScale {
        delay: kani::any(),
        duration: kani::any(),
        repeat: kani::any(),
        reverse: kani::any(),
    }
}

// ---------------------------------------------------------------------------------------------
// Proofs of the contracts.  K-complete: loop-free, every scalar symbolic over its full domain.
// The domain is partitioned by (repeat mode x reverse) into six harnesses, each of which proves
// every clause of the contract of `get_position`; their union is the whole domain.

//@@begin-needs-contract TimeScale::get_position
macro_rules! get_position_contract_proof {
    ($name:ident, $rep:expr, $rev:expr) => {
        #[kani::proof_for_contract(TimeScale::get_position)]
        #[kani::stub(crate::verif_frem::frem32, crate::verif_frem::frem32_model)]
        #[kani::solver(cvc5)]
        fn $name() {
            let mut ts = any_timescale();
            ts.repeat = $rep;
            ts.reverse = $rev;
            let t: f32 = kani::any();
            frem_havoc();
            if pre_get_position(&ts, t) {
                frem_expect(t - ts.delay, ts.duration);
            }
            let _ = ts.get_position(t);
        }
    };
}
get_position_contract_proof!(ts_get_position_none_fwd, Repeat::None, false);
get_position_contract_proof!(ts_get_position_none_rev, Repeat::None, true);
get_position_contract_proof!(ts_get_position_times_fwd, Repeat::Times(kani::any()), false);
get_position_contract_proof!(ts_get_position_times_rev, Repeat::Times(kani::any()), true);
get_position_contract_proof!(ts_get_position_infinite_fwd, Repeat::Infinite, false);
get_position_contract_proof!(ts_get_position_infinite_rev, Repeat::Infinite, true);
//@@end-needs-contract TimeScale::get_position

macro_rules! get_duration_contract_proof {
    ($name:ident, $rep:expr) => {
        #[kani::proof_for_contract(TimeScale::get_duration)]
        #[kani::solver(cvc5)]
        fn $name() {
            let mut ts = any_timescale();
            ts.repeat = $rep;
            let _ = ts.get_duration();
        }
    };
}
get_duration_contract_proof!(ts_get_duration_none, Repeat::None);
get_duration_contract_proof!(ts_get_duration_times, Repeat::Times(kani::any()));
get_duration_contract_proof!(ts_get_duration_infinite, Repeat::Infinite);

/// C03: reported delay / cycle / repeat equal what was configured.
#[kani::proof]
fn ts_accessors_return_configuration() {
    let d: f32 = kani::any();
    let delay: f32 = kani::any();
    let repeat: Repeat = kani::any();
    let reverse: bool = kani::any();
    kani::assume(!d.is_nan() && !delay.is_nan());
    let ts = TimeScale::new(d, delay, repeat, reverse);
    assert!(ts.get_cycle_duration() == d);
    assert!(ts.get_delay() == delay);
    assert!(ts.get_repeat() == repeat);
    assert!(ts.reverse == reverse);
    // Clone preserves the configuration (C09: a clone gives identical results).
    let c = ts.clone();
    assert!(c.delay == delay && c.duration == d && c.repeat == repeat && c.reverse == reverse);
}

// ---------------------------------------------------------------------------------------------
// Lemmas: contract => statement.  They quantify over *every* result the contract allows
// (`any_result_satisfying`), not over what the current body computes.

fn any_position_satisfying_contract(ts: &TimeScale, t: f32) -> TimeScalePosition {
    let r = any_position_satisfying_phase_clauses(ts, t);
    kani::assume(post_pos_range(ts, t, &r));
    kani::assume(post_pos_value(ts, t, &r));
    kani::assume(post_pos_flags(ts, t, &r));
    r
}

/// Only the clauses about *which phase* a time is in (a weaker assumption: more results).
fn any_position_satisfying_phase_clauses(ts: &TimeScale, t: f32) -> TimeScalePosition {
    let r = any_position();
    kani::assume(post_pos_not_started(ts, t, &r));
    kani::assume(post_pos_terminal(ts, t, &r));
    kani::assume(post_pos_terminal_value(ts, t, &r));
    r
}

/// C02/C07: once terminal, the position no longer changes with time: for every pair of
/// results the phase clauses allow at times t1 <= t2.
#[kani::proof]
fn ts_lemma_terminal_is_constant() {
    let ts = any_timescale();
    let t1: f32 = kani::any();
    let t2: f32 = kani::any();
    kani::assume(pre_get_position(&ts, t1) && pre_get_position(&ts, t2));
    kani::assume(t2 >= t1);
    let span = spec_total(&ts);
    let p1 = any_position();
    let p2 = any_position();
    kani::assume(post_pos_terminal_given(&ts, t1, &p1, span) && post_pos_terminal_value(&ts, t1, &p1));
    kani::assume(post_pos_terminal_given(&ts, t2, &p2, span) && post_pos_terminal_value(&ts, t2, &p2));
    if let TimeScalePosition::Ended(a) = p1 {
        assert!(matches!(p2, TimeScalePosition::Ended(_)));
        if let TimeScalePosition::Ended(b) = p2 {
            assert!(a == b);
        }
    }
}

/// C03/C07: the reported total duration agrees with the behaviour, with no side condition on
/// the configuration: no time before it is terminal, and from it on (`t >= total`, which is what
/// `is_ended` tests) EVERY position the contract allows is the terminal one - `Ended`, or at
/// `t == total` exactly the held end of the last cycle - i.e. 100%, or the original 0% for a
/// reversing timeline.  Never terminal under infinite repeat.
macro_rules! lemma_duration_agrees {
    ($name:ident, $rep:expr) => {
        #[kani::proof]
        #[kani::solver(cvc5)]
        fn $name() {
            let mut ts = any_timescale();
            ts.repeat = $rep;
            let t: f32 = kani::any();
            kani::assume(pre_get_position(&ts, t));
            frem_havoc();
            let total: f32 = kani::any();
            kani::assume(post_get_duration(&ts, total));
            let pos = any_position_satisfying_contract(&ts, t);
            if cycles_f32(ts.repeat).is_some() {
                if t < total {
                    assert!(!matches!(pos, TimeScalePosition::Ended(_)));
                } else {
                    let terminal = if ts.reverse { 0.0 } else { 1.0 };
                    match pos {
                        TimeScalePosition::Ended(p) => assert!(p == terminal),
                        TimeScalePosition::Active(p, _) => assert!(p == terminal && t == total),
                        TimeScalePosition::NotStarted => assert!(false),
                    }
                }
            } else {
                assert!(total == f32::INFINITY);
                assert!(!matches!(pos, TimeScalePosition::Ended(_)));
            }
        }
    };
}
lemma_duration_agrees!(ts_lemma_duration_agrees_none, Repeat::None);
lemma_duration_agrees!(ts_lemma_duration_agrees_times, Repeat::Times(kani::any()));
lemma_duration_agrees!(ts_lemma_duration_agrees_infinite, Repeat::Infinite);

/// C03: mirror symmetry of a reversing cycle — the falling half at cycle fraction `1 - r`
/// shows the position the rising half showed at `r` (stated where `1 - r` is exact).
#[kani::proof]
fn ts_lemma_reverse_mirror() {
    let ts = TimeScale { delay: 0.0, duration: 1.0, repeat: Repeat::None, reverse: true };
    let r: f32 = kani::any();
    kani::assume(r > 0.0 && r < 0.5);
    let m = 1.0 - r;
    kani::assume(1.0 - m == r);
    frem_havoc();
    let up = any_position_satisfying_contract(&ts, r);
    let down = any_position_satisfying_contract(&ts, m);
    match (up, down) {
        (TimeScalePosition::Active(a, _), TimeScalePosition::Active(b, _)) => {
            assert!((a - b).abs() <= 4.0 * TOL);
        }
        _ => {
            assert!(false);
        }
    }
}

/// The formula values at the ends of a pass are exactly 0% and 100% (used by C02).
#[kani::proof]
#[kani::solver(cvc5)]
fn ts_lemma_endpoint_arithmetic() {
    let d: f32 = kani::any();
    kani::assume(d.is_finite() && d > 0.0);
    assert!(d / d == 1.0);
    assert!(0.0 / d == 0.0);
    assert!((d / d) * 2.0 == 2.0 && (1.0 - d / d) * 2.0 == 0.0);
    assert!((0.0 / d) * 2.0 == 0.0);
    assert!(0.5f32 * 2.0 == 1.0 && (1.0f32 - 0.5) * 2.0 == 1.0);
}

/// `since / d >= 1.0` is `since >= d`, `since / d > 1.0` is `since > d` (used by the
/// specification of the hold-at-100% rule and of `is_repeating`).
#[kani::proof]
#[kani::solver(cvc5)]
fn ts_lemma_quotient_vs_compare() {
    let a: f32 = kani::any();
    let d: f32 = kani::any();
    kani::assume(a.is_finite() && a >= 0.0 && d.is_finite() && d > 0.0);
    let q = a / d;
    assert!((q >= 1.0) == (a >= d));
    assert!((q > 1.0) == (a > d));
}

/// `time - delay < 0` is `time < delay` for finite operands (IEEE subtraction is exact in sign).
#[kani::proof]
fn ts_lemma_subtraction_sign() {
    let t: f32 = kani::any();
    let d: f32 = kani::any();
    kani::assume(t.is_finite() && d.is_finite());
    assert!(((t - d) < 0.0) == (t < d));
}

// -- counterexample search harnesses -------------------------------------------------------
// Not part of any proof.  When a clause of the contract fails in a proof harness (word-level
// solver, no model read-back), the driver re-runs the single clause here with a SAT back end
// and concrete playback, then replays the input natively on the real code.

macro_rules! cex_clause {
    ($name:ident, $rep:expr, $rev:expr, $clause:ident) => {
        #[kani::proof]
        #[kani::stub(crate::verif_frem::frem32, crate::verif_frem::frem32_model)]
        pub(crate) fn $name() {
            let mut ts = any_timescale();
            ts.repeat = $rep;
            ts.reverse = $rev;
            let t: f32 = kani::any();
            let fr: f32 = kani::any();
            kani::assume(pre_get_position(&ts, t));
            unsafe {
                crate::verif_frem::FREM_R = fr;
                crate::verif_frem::FREM_EXPECT = false;
            }
            frem_expect(t - ts.delay, ts.duration);
            let r = ts.get_position(t);
            assert!($clause(&ts, t, &r));
        }
    };
}
fn post_safety(_ts: &TimeScale, _t: f32, _r: &TimeScalePosition) -> bool {
    true
}
macro_rules! cex_mode {
    ($m:ident, $rep:expr, $rev:expr) => {
        pub(crate) mod $m {
            use super::*;
            cex_clause!(post_pos_not_started_cex, $rep, $rev, post_pos_not_started);
            cex_clause!(post_pos_terminal_cex, $rep, $rev, post_pos_terminal);
            cex_clause!(post_pos_terminal_value_cex, $rep, $rev, post_pos_terminal_value);
            cex_clause!(post_pos_range_cex, $rep, $rev, post_pos_range);
            cex_clause!(post_pos_value_cex, $rep, $rev, post_pos_value);
            cex_clause!(post_pos_flags_cex, $rep, $rev, post_pos_flags);
            cex_clause!(safety_cex, $rep, $rev, post_safety);
        }
    };
}
cex_mode!(cex_none_fwd, Repeat::None, false);
cex_mode!(cex_none_rev, Repeat::None, true);
cex_mode!(cex_times_fwd, Repeat::Times(kani::any()), false);
cex_mode!(cex_times_rev, Repeat::Times(kani::any()), true);
cex_mode!(cex_infinite_fwd, Repeat::Infinite, false);
cex_mode!(cex_infinite_rev, Repeat::Infinite, true);

macro_rules! cex_duration {
    ($name:ident, $rep:expr) => {
        #[kani::proof]
        pub(crate) fn $name() {
            let mut ts = any_timescale();
            ts.repeat = $rep;
            kani::assume(valid_timescale(&ts));
            let r = ts.get_duration();
            assert!(post_get_duration(&ts, r));
        }
    };
}
pub(crate) mod cex_duration {
    use super::*;
    cex_duration!(none, Repeat::None);
    cex_duration!(times, Repeat::Times(kani::any()));
    cex_duration!(infinite, Repeat::Infinite);
}

/// C10: the loop-state flags of the contract determine "first forward pass" exactly as the
/// statement reads it (`spec_first_forward_pass`): override enabled <=> !repeating && !reversing.
#[kani::proof]
#[kani::solver(cvc5)]
fn ts_lemma_flags_mean_first_forward_pass() {
    let ts = any_timescale();
    let t: f32 = kani::any();
    kani::assume(pre_get_position(&ts, t));
    frem_havoc();
    let rep: bool = kani::any();
    let rev: bool = kani::any();
    let p: f32 = kani::any();
    let pos = TimeScalePosition::Active(p, TimeScaleLoopState { is_repeating: rep, is_reversing: rev });
    kani::assume(post_pos_flags(&ts, t, &pos));
    if let Some(expected) = spec_first_forward_pass(&ts, t) {
        assert!((!rep && !rev) == expected);
    }
}

// -- vacuity guards ----------------------------------------------------------------------------

macro_rules! cover_mode {
    ($name:ident, $rep:expr, $rev:expr) => {
        /// Each phase of the contract's domain is reachable under the precondition.
        #[kani::proof]
        #[kani::stub(crate::verif_frem::frem32, crate::verif_frem::frem32_model)]
        fn $name() {
            let mut ts = any_timescale();
            ts.repeat = $rep;
            ts.reverse = $rev;
            let t: f32 = kani::any();
            kani::assume(pre_get_position(&ts, t));
            frem_havoc();
            let r = ts.get_position(t);
            kani::cover!(matches!(r, TimeScalePosition::NotStarted), "NotStarted reachable");
            kani::cover!(matches!(r, TimeScalePosition::Active(..)), "Active reachable");
            kani::cover!(
                matches!(r, TimeScalePosition::Active(_, TimeScaleLoopState { is_repeating: true, .. })),
                "Active repeating reachable"
            );
            kani::cover!(matches!(r, TimeScalePosition::Active(p, _) if p == 1.0), "100% reachable");
        }
    };
}
cover_mode!(ts_cover_times_rev, Repeat::Times(kani::any()), true);
cover_mode!(ts_cover_infinite_fwd, Repeat::Infinite, false);

/// Canary: a deliberately false postcondition on the real code must FAIL (position < 1 always).
#[kani::proof]
#[kani::stub(crate::verif_frem::frem32, crate::verif_frem::frem32_model)]
fn ts_canary_must_fail() {
    let mut ts = any_timescale();
    ts.repeat = Repeat::None;
    ts.reverse = false;
    let t: f32 = kani::any();
    kani::assume(pre_get_position(&ts, t));
    frem_havoc();
    if let TimeScalePosition::Active(p, _) = ts.get_position(t) {
        assert!(p < 1.0, "canary: deliberately false");
    }
}
