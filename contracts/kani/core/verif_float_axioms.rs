//! A2 cross-check: every f32 order axiom that route V (Verus) takes as `external_body` is
//! proved here bit-precisely for all f32 bit patterns.  Reading of the Verus vocabulary:
//! flt(a,b) = `a < b`, fgt(a,b) = `a > b`, fle(a,b) = !(b < a), is_zero(t) = !(t > 0.0),
//! is_one(t) = !(t < 1.0), pos01(t) = t is a non-NaN value in [0, 1].

fn pos01(t: f32) -> bool {
    t >= 0.0 && t <= 1.0
}
fn flt(a: f32, b: f32) -> bool {
    a < b
}
fn fgt(a: f32, b: f32) -> bool {
    a > b
}
fn fle(a: f32, b: f32) -> bool {
    !flt(b, a)
}
fn is_zero(t: f32) -> bool {
    !fgt(t, 0.0)
}
fn is_one(t: f32) -> bool {
    !flt(t, 1.0)
}

/// axiom_pos01_zero_or_below_one, axiom_pos01_literals, axiom_fle_refl
#[kani::proof]
fn axioms_unary() {
    let t: f32 = kani::any();
    kani::assume(pos01(t));
    assert!(fgt(t, 0.0) || flt(t, 1.0));
    assert!(fle(t, t));
    assert!(pos01(0.0) && pos01(1.0) && is_zero(0.0) && is_one(1.0));
}

/// axiom_flt_implies_fle, axiom_zero_least, axiom_one_greatest
#[kani::proof]
fn axioms_binary() {
    let a: f32 = kani::any();
    let b: f32 = kani::any();
    kani::assume(pos01(a) && pos01(b));
    if flt(a, b) {
        assert!(fle(a, b));
    }
    if is_zero(a) {
        assert!(fle(a, b));
    }
    if is_one(b) {
        assert!(fle(a, b));
    }
}

/// axiom_fle_trans
#[kani::proof]
fn axioms_ternary() {
    let a: f32 = kani::any();
    let b: f32 = kani::any();
    let c: f32 = kani::any();
    kani::assume(pos01(a) && pos01(b) && pos01(c));
    if fle(a, b) && fle(b, c) {
        assert!(fle(a, c));
    }
}

/// What `TimelineBuilderArguments::from` delivers (sorted by total_cmp) implies the `fle`
/// ordering `kfs_ok` asks for, on valid positions.
#[kani::proof]
fn total_cmp_order_implies_fle() {
    let a: f32 = kani::any();
    let b: f32 = kani::any();
    kani::assume(pos01(a) && pos01(b));
    if a.total_cmp(&b) != core::cmp::Ordering::Greater {
        assert!(fle(a, b));
    }
}
