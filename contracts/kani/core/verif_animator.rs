//! L-ANIM — representation invariant and transition contracts for `MappedTimelineAnimator`
//! (C04, C05, C06, C07, C08, C20).  Child module of `animator`: reads the private fields
//! (`state_duration`, `paused_animation`) directly — this is why no source hook is needed.
//!
//! "For every history" is decided by induction: `inv` holds after `new`, and every operation
//! is verified from a fully symbolic pre-state satisfying `inv` (not from states reached by
//! running k operations), so there is no depth bound.  The timelines in the map are arbitrary
//! `AbsTl` values (the abstract timeline contract `TL`, see verif_timeline.rs); states are a
//! 3-valued enum: `set_state` mentions at most {current, remembered, target} plus a bystander,
//! and the code uses `State` only through `==` and `clone`.
//! Three states suffice for that: current, remembered/bystander, target.

use super::*;
use crate::timeline::verif_timeline::{any_vals, AbsTl, Vals};
use crate::timeline::MergedTimeline;

#[derive(Clone, Copy, Debug, PartialEq, Eq)]
pub(crate) enum St {
    A,
    B,
    C,
}
fn any_state() -> St {
    let k: u8 = kani::any();
    kani::assume(k < 3);
    match k {
        0 => St::A,
        1 => St::B,
        _ => St::C,
    }
}

/// Three slots, each with no timeline or a merged timeline of one arbitrary component.
pub(crate) struct Map4 {
    a: Option<MergedTimeline<AbsTl>>,
    b: Option<MergedTimeline<AbsTl>>,
    c: Option<MergedTimeline<AbsTl>>,
}
fn idx(s: &St) -> usize {
    match s {
        St::A => 0,
        St::B => 1,
        St::C => 2,
    }
}
impl Map4 {
    fn slot(&self, key: &St) -> &Option<MergedTimeline<AbsTl>> {
        match key {
            St::A => &self.a,
            St::B => &self.b,
            St::C => &self.c,
        }
    }
}
impl MapLike<St, MergedTimeline<AbsTl>> for Map4 {
    fn get(&self, key: &St) -> Option<&MergedTimeline<AbsTl>> {
        self.slot(key).as_ref()
    }
    fn get_mut(&mut self, key: &St) -> Option<&mut MergedTimeline<AbsTl>> {
        match key {
            St::A => self.a.as_mut(),
            St::B => self.b.as_mut(),
            St::C => self.c.as_mut(),
        }
    }
}

type Anim = MappedTimelineAnimator<St, AbsTl, Map4>;

fn any_slot(id: u8) -> Option<MergedTimeline<AbsTl>> {
    if kani::any() {
        let mut t = AbsTl::any(id);
        // any earlier start_with may have happened
        if kani::any() {
            t.ovr = Some(any_vals());
        }
        Some(MergedTimeline::of([t]))
    } else {
        None
    }
}

fn any_map() -> Map4 {
    Map4 { a: any_slot(0), b: any_slot(1), c: any_slot(2) }
}

fn any_duration() -> Duration {
    let secs: u64 = kani::any();
    let nanos: u32 = kani::any();
    kani::assume(secs < (1u64 << 23) && nanos < 1_000_000_000);
    Duration::new(secs, nanos)
}

/// The single component of a slot (slots are built by `any_slot`).
fn comp<'a>(m: &'a Map4, s: &St) -> Option<&'a AbsTl> {
    match m.slot(s) {
        Some(mt) => Some(&mt.timelines_ref()[0]),
        None => None,
    }
}

/// `v` agrees with `e` on the properties `t` animates.
fn agrees_on_animated(t: &AbsTl, v: &Vals, e: &Vals) -> bool {
    (t.mask & 1 == 0 || v.p == e.p) && (t.mask & 2 == 0 || v.q == e.q)
}

/// The remembered pause that can still be acted on: a record naming the *current* state can
/// never be matched by `set_state` (the same-state test comes first), so it is unobservable.
fn live_pause(a: &Anim) -> Option<(St, Duration)> {
    match a.paused_animation {
        Some((s, p)) if s != a.current_state => Some((s, p)),
        _ => None,
    }
}

/// Representation invariant.
/// (i)  in sync: on the properties the current timeline animates, current_values is that
///      timeline evaluated at the time spent in the state;
/// (iii) any record names a state that has a timeline;
/// (ii) a remembered pause is only live while frozen: it names a state that has a timeline,
///      the current state has none, and current_values still shows the frozen values.
pub(crate) fn inv(a: &Anim) -> bool {
    let in_sync = match comp(&a.timelines, &a.current_state) {
        Some(t) => agrees_on_animated(t, &a.current_values, &t.eval(a.state_duration.as_secs_f32())),
        None => true,
    };
    let pause_ok = match live_pause(a) {
        Some((s, p)) => match comp(&a.timelines, &s) {
            Some(t) => {
                comp(&a.timelines, &a.current_state).is_none()
                    && agrees_on_animated(t, &a.current_values, &t.eval(p.as_secs_f32()))
            }
            None => false,
        },
        None => true,
    };
    // (iii) a record (live or not) always names a state that has a timeline: it is only ever
    //       written when leaving an animated state
    let record_ok = match a.paused_animation {
        Some((s, _)) => comp(&a.timelines, &s).is_some(),
        None => true,
    };
    in_sync && pause_ok && record_ok
}

fn any_animator_satisfying_inv() -> Anim {
    let cur = any_state();
    let paused = if kani::any() { Some((any_state(), any_duration())) } else { None };
    let a = MappedTimelineAnimator {
        timelines: any_map(),
        current_state: cur,
        current_values: any_vals(),
        paused_animation: paused,
        state_duration: any_duration(),
        _timeline_phantom: PhantomData,
    };
    kani::assume(inv(&a));
    a
}

#[derive(Clone, Copy, PartialEq, Eq)]
struct SlotView {
    present: bool,
    ovr: Option<Vals>,
    calls: u8,
}
fn view(m: &Map4, s: &St) -> SlotView {
    match comp(m, s) {
        Some(t) => SlotView { present: true, ovr: t.ovr, calls: t.start_with_calls },
        None => SlotView { present: false, ovr: None, calls: 0 },
    }
}
const ALL: [St; 3] = [St::A, St::B, St::C];

// -- construction ------------------------------------------------------------------------------

/// C05: construction blends the initial state from the initial values and establishes `inv`.
#[kani::proof]
#[kani::unwind(6)]
#[kani::stub(std::time::Duration::as_secs_f32, crate::verif_dur::as_secs_f32_model)]
#[kani::stub(std::time::Duration::from_secs_f32, crate::verif_dur::from_secs_f32_model)]
pub(crate) fn new_establishes_inv() {
    crate::verif_dur::dur_reset();
    let m = any_map();
    let s0 = any_state();
    let v0 = any_vals();
    let had = view(&m, &s0);
    let a = Anim::new(m, s0, v0);
    assert!(inv(&a));
    assert!(*a.current_state() == s0);
    assert!(*a.current_values() == v0);
    assert!(a.state_duration == Duration::ZERO && a.paused_animation.is_none());
    let now = view(&a.timelines, &s0);
    assert!(now.present == had.present);
    if had.present {
        assert!(now.ovr == Some(v0) && now.calls == had.calls.wrapping_add(1));
    }
}

// -- set_state ---------------------------------------------------------------------------------

/// C04: `set_state` never changes current_values at the moment of the call (from ANY state
/// satisfying the invariant, i.e. after any history), and setting the current state changes
/// nothing at all.  C05: the transition follows the documented blend / pause / resume rules.
/// Also: `inv` is preserved.
#[kani::proof]
#[kani::unwind(6)]
#[kani::stub(std::time::Duration::as_secs_f32, crate::verif_dur::as_secs_f32_model)]
#[kani::stub(std::time::Duration::from_secs_f32, crate::verif_dur::from_secs_f32_model)]
pub(crate) fn set_state_contract() {
    crate::verif_dur::dur_reset();
    let mut a = any_animator_satisfying_inv();
    let target = any_state();
    let old_cur = a.current_state;
    let old_vals = a.current_values;
    let old_time = a.state_duration;
    let old_live = live_pause(&a);
    let old_raw_pause = a.paused_animation;
    let old_views = [view(&a.timelines, &ALL[0]), view(&a.timelines, &ALL[1]), view(&a.timelines, &ALL[2])];
    let cur_animated = old_views[idx(&old_cur)].present;
    let tgt_animated = old_views[idx(&target)].present;

    a.set_state(&target);

    // C04: no jump, ever
    assert!(a.current_values == old_vals, "C04: set_state changed current_values");
    // C05: current_state reports the last state set
    assert!(*a.current_state() == target);
    assert!(inv(&a), "inv preserved by set_state");

    let new_views = [view(&a.timelines, &ALL[0]), view(&a.timelines, &ALL[1]), view(&a.timelines, &ALL[2])];
    if target == old_cur {
        // C04: same state => nothing at all changes (no restart, no re-blend)
        assert!(a.state_duration == old_time && a.paused_animation == old_raw_pause);
        assert!(new_views == old_views);
    } else {
        let resumed = matches!(old_live, Some((s, _)) if s == target);
        if resumed {
            // C05: returning to the interrupted state resumes at the remembered position, unblended
            let (_, p) = old_live.unwrap();
            assert!(a.state_duration == p);
            assert!(new_views == old_views);
            assert!(live_pause(&a).is_none());
        } else {
            // C05: any other change restarts time and blends the target (if animated) from the
            // values held at the moment of the change, exactly once; no other timeline is touched
            assert!(a.state_duration == Duration::ZERO);
            let mut i = 0;
            while i < 3 {
                if ALL[i] == target && tgt_animated {
                    assert!(new_views[i].ovr == Some(old_vals));
                    assert!(new_views[i].calls == old_views[i].calls.wrapping_add(1));
                } else {
                    assert!(new_views[i] == old_views[i]);
                }
                i += 1;
            }
            // C05: remembered pause
            if tgt_animated {
                // entering any other animated state discards the remembered position
                assert!(live_pause(&a).is_none());
            } else if cur_animated {
                // entering a state without a timeline freezes and remembers the interrupted animation
                assert!(live_pause(&a) == Some((old_cur, old_time)));
            } else {
                // moving between un-animated states keeps what was remembered
                assert!(live_pause(&a) == old_live);
            }
        }
    }
}

// -- advance -----------------------------------------------------------------------------------

/// C05/C06: advance adds exactly the elapsed time and re-evaluates the current timeline from
/// the absolute time; everything else is framed.  C08: properties the current timeline does
/// not animate keep their values.  `inv` is preserved.
#[kani::proof]
#[kani::unwind(6)]
#[kani::stub(std::time::Duration::as_secs_f32, crate::verif_dur::as_secs_f32_model)]
#[kani::stub(std::time::Duration::from_secs_f32, crate::verif_dur::from_secs_f32_model)]
pub(crate) fn advance_contract() {
    crate::verif_dur::dur_reset();
    let mut a = any_animator_satisfying_inv();
    let dt: f32 = kani::any();
    kani::assume(dt >= 0.0 && dt <= 1.0e9);
    let old_cur = a.current_state;
    let old_vals = a.current_values;
    let old_time = a.state_duration;
    let old_raw_pause = a.paused_animation;
    let old_views = [view(&a.timelines, &ALL[0]), view(&a.timelines, &ALL[1]), view(&a.timelines, &ALL[2])];

    a.advance(dt);

    assert!(a.state_duration == old_time + Duration::from_secs_f32(dt));
    assert!(a.current_state == old_cur && a.paused_animation == old_raw_pause);
    let new_views = [view(&a.timelines, &ALL[0]), view(&a.timelines, &ALL[1]), view(&a.timelines, &ALL[2])];
    assert!(new_views == old_views);
    match comp(&a.timelines, &old_cur) {
        Some(t) => {
            let e = t.eval(a.state_duration.as_secs_f32());
            assert!(agrees_on_animated(t, &a.current_values, &e));
            assert!(t.mask & 1 != 0 || a.current_values.p == old_vals.p);
            assert!(t.mask & 2 != 0 || a.current_values.q == old_vals.q);
        }
        None => assert!(a.current_values == old_vals),
    }
    assert!(a.current_values.z == old_vals.z);
    assert!(inv(&a), "inv preserved by advance");
}

/// C06: advance(0) changes nothing (whole-struct), from any state satisfying the invariant.
#[kani::proof]
#[kani::unwind(6)]
#[kani::stub(std::time::Duration::as_secs_f32, crate::verif_dur::as_secs_f32_model)]
#[kani::stub(std::time::Duration::from_secs_f32, crate::verif_dur::from_secs_f32_model)]
pub(crate) fn advance_zero_is_identity() {
    crate::verif_dur::dur_reset();
    let mut a = any_animator_satisfying_inv();
    let old_vals = a.current_values;
    let old_time = a.state_duration;
    let old_raw_pause = a.paused_animation;
    let old_cur = a.current_state;
    a.advance(0.0);
    assert!(a.current_values == old_vals && a.state_duration == old_time);
    assert!(a.paused_animation == old_raw_pause && a.current_state == old_cur);
}

/// C06: advance(a); advance(b) == advance(a+b) when the steps are exactly representable
/// (the sum is exact in f32 and each step is a whole number of nanoseconds).
#[kani::proof]
#[kani::unwind(6)]
#[kani::stub(std::time::Duration::as_secs_f32, crate::verif_dur::as_secs_f32_model)]
#[kani::stub(std::time::Duration::from_secs_f32, crate::verif_dur::from_secs_f32_model)]
pub(crate) fn advance_split_equals_advance_sum() {
    crate::verif_dur::dur_reset();
    let mut x = any_animator_satisfying_inv();
    let na: u32 = kani::any();
    let nb: u32 = kani::any();
    kani::assume(na < (1 << 22) && nb < (1 << 22));
    // steps that are multiples of 1/1024 s with small numerators: exact in f32 and in ns? not in ns;
    // use whole milliseconds scaled: a = na/1024 has a finite binary expansion, from_secs_f32 truncates to ns
    let a = na as f32 / 1024.0;
    let b = nb as f32 / 1024.0;
    let mut y = MappedTimelineAnimator {
        timelines: Map4 { a: x.timelines.a.clone(), b: x.timelines.b.clone(), c: x.timelines.c.clone() },
        current_state: x.current_state,
        current_values: x.current_values,
        paused_animation: x.paused_animation,
        state_duration: x.state_duration,
        _timeline_phantom: PhantomData,
    };
    x.advance(a);
    x.advance(b);
    y.advance(a + b);
    // exactness precondition of the statement
    kani::assume(Duration::from_secs_f32(a) + Duration::from_secs_f32(b) == Duration::from_secs_f32(a + b));
    assert!(x.state_duration == y.state_duration);
    assert!(x.current_values == y.current_values);
}

// -- is_ended ------------------------------------------------------------------------------------

/// C07: is_ended is true exactly when the current state has no timeline or the time spent in
/// the state is at least the timeline's total duration; never under an infinite duration.
#[kani::proof]
#[kani::unwind(6)]
#[kani::stub(std::time::Duration::as_secs_f32, crate::verif_dur::as_secs_f32_model)]
#[kani::stub(std::time::Duration::from_secs_f32, crate::verif_dur::from_secs_f32_model)]
pub(crate) fn is_ended_contract() {
    crate::verif_dur::dur_reset();
    let a = any_animator_satisfying_inv();
    let r = a.is_ended();
    match comp(&a.timelines, &a.current_state) {
        None => assert!(r),
        Some(t) => {
            assert!(r == (a.state_duration.as_secs_f32() >= t.duration));
            if t.duration == f32::INFINITY {
                assert!(!r);
            }
        }
    }
}

/// C07: once ended it stays ended under further advances (time only grows, the f32 view of a
/// Duration is monotone).
#[kani::proof]
#[kani::unwind(6)]
#[kani::stub(std::time::Duration::as_secs_f32, crate::verif_dur::as_secs_f32_model)]
#[kani::stub(std::time::Duration::from_secs_f32, crate::verif_dur::from_secs_f32_model)]
pub(crate) fn is_ended_is_stable_under_advance() {
    crate::verif_dur::dur_reset();
    let mut a = any_animator_satisfying_inv();
    let dt: f32 = kani::any();
    kani::assume(dt >= 0.0 && dt <= 1.0e9);
    let was = a.is_ended();
    a.advance(dt);
    if was {
        assert!(a.is_ended());
    }
}

impl<State, Timeline, TimelineMap> MappedTimelineAnimator<State, Timeline, TimelineMap>
where
    State: Clone + PartialEq,
    Timeline: crate::timeline::Timeline,
    Timeline::Target: Clone,
    TimelineMap: MapLike<State, MergedTimeline<Timeline>>,
{
    /// Read access for the macro-equivalence harnesses (verification only).
    pub fn verif_timeline_of(&self, s: &State) -> Option<&MergedTimeline<Timeline>> {
        self.timelines.get(s)
    }
    pub fn verif_time_and_pause(&self) -> (Duration, bool) {
        (self.state_duration, self.paused_animation.is_some())
    }
}

// -- StateAnimatorBuilder + the real EnumMap-backed map ------------------------------------------------

#[derive(Clone, Copy, Debug, Default, PartialEq, Eq, State)]
pub(crate) enum Es {
    #[default]
    A,
    B,
    C,
}
fn any_es() -> Es {
    let k: u8 = kani::any();
    kani::assume(k < 3);
    match k {
        0 => Es::A,
        1 => Es::B,
        _ => Es::C,
    }
}

/// C05/C16 (builder half): `from_state`/`from_values`/`on` configure exactly what `build` hands to
/// the animator: initial state and values as given (Default otherwise), a timeline for exactly
/// the states passed to `on` (the latest wins), the initial state's timeline blended from the
/// initial values; the EnumMap-backed `MapLike` returns each state's own entry.
#[kani::proof]
#[kani::unwind(6)]
#[kani::stub(std::time::Duration::as_secs_f32, crate::verif_dur::as_secs_f32_model)]
#[kani::stub(std::time::Duration::from_secs_f32, crate::verif_dur::from_secs_f32_model)]
pub(crate) fn builder_contract() {
    crate::verif_dur::dur_reset();
    let s0 = any_es();
    let v0 = any_vals();
    let on_a: bool = kani::any();
    let on_c: bool = kani::any();
    let set_state: bool = kani::any();
    let set_values: bool = kani::any();
    let (ta, tc, tc2) = (AbsTl::any(10), AbsTl::any(30), AbsTl::any(31));
    let mut b: StateAnimatorBuilder<Es, AbsTl> = StateAnimatorBuilder::new();
    if set_state {
        b = b.from_state(s0);
    }
    if set_values {
        b = b.from_values(v0);
    }
    if on_a {
        b = b.on(Es::A, MergedTimeline::of([ta.clone()]));
    }
    if on_c {
        b = b.on(Es::C, MergedTimeline::of([tc.clone()]));
        b = b.on(Es::C, MergedTimeline::of([tc2.clone()]));
    }
    let a = b.build();
    let want_state = if set_state { s0 } else { Es::A };
    let want_vals = if set_values { v0 } else { Vals { p: 0, q: 0, z: 0 } };
    assert!(*a.current_state() == want_state);
    assert!(*a.current_values() == want_vals);
    assert!(a.state_duration == Duration::ZERO && a.paused_animation.is_none());
    let ids = |s: Es| a.timelines.get(&s).map(|m| m.timelines_ref()[0].id);
    assert!(ids(Es::A) == if on_a { Some(10) } else { None });
    assert!(ids(Es::B).is_none());
    assert!(ids(Es::C) == if on_c { Some(31) } else { None });
    // only the initial state's timeline was blended, from the initial values
    let started = |s: Es| a.timelines.get(&s).map(|m| (m.timelines_ref()[0].ovr, m.timelines_ref()[0].start_with_calls));
    for s in [Es::A, Es::C] {
        if let Some((ovr, calls)) = started(s) {
            if s == want_state {
                assert!(ovr == Some(want_vals) && calls == 1);
            } else {
                assert!(ovr.is_none() && calls == 0);
            }
        }
    }
}

// -- vacuity -------------------------------------------------------------------------------------

/// The invariant admits the interesting pre-states.
#[kani::proof]
#[kani::unwind(6)]
#[kani::stub(std::time::Duration::as_secs_f32, crate::verif_dur::as_secs_f32_model)]
#[kani::stub(std::time::Duration::from_secs_f32, crate::verif_dur::from_secs_f32_model)]
pub(crate) fn cover_inv_states() {
    crate::verif_dur::dur_reset();
    let a = any_animator_satisfying_inv();
    kani::cover!(live_pause(&a).is_some(), "frozen with a remembered animation");
    kani::cover!(comp(&a.timelines, &a.current_state).is_some() && a.state_duration > Duration::ZERO, "animating, time elapsed");
    kani::cover!(a.paused_animation.is_some() && live_pause(&a).is_none(), "stale record naming the current state");
}

/// Canary: must FAIL (claims set_state always resets the time).
#[kani::proof]
#[kani::unwind(6)]
#[kani::stub(std::time::Duration::as_secs_f32, crate::verif_dur::as_secs_f32_model)]
#[kani::stub(std::time::Duration::from_secs_f32, crate::verif_dur::from_secs_f32_model)]
pub(crate) fn canary_must_fail() {
    crate::verif_dur::dur_reset();
    let mut a = any_animator_satisfying_inv();
    let target = any_state();
    a.set_state(&target);
    assert!(a.state_duration == Duration::ZERO, "canary: deliberately false");
}
