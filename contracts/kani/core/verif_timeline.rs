//! L-PF / L-CFG / L-MERGE — contracts and proof harnesses for `prepare_frame`,
//! `TimelineBuilderArguments::from`, `MergedTimeline` and `Repeat` (C01, C02, C08, C10, C11, C12).
//! Child module of `timeline`.

use super::*;
use crate::time_scale::verif_time_scale as tsv;
use crate::time_scale::{TimeScaleLoopState, TimeScalePosition};

pub(crate) fn pos01(t: f32) -> bool {
    t >= 0.0 && t <= 1.0
}

/// Master positions are valid and sorted (what `TimelineBuilderArguments::from` delivers).
pub(crate) fn bt_ok(bt: &[f32]) -> bool {
    let mut i = 0;
    while i < bt.len() {
        if !pos01(bt[i]) {
            return false;
        }
        if i > 0 && !(bt[i - 1] <= bt[i]) {
            return false;
        }
        i += 1;
    }
    true
}

/// `hint_ok` of the Verus specification (contracts/verus/postlude.rs), executable: keyframe
/// `hint` is at or before `t` and keyframe `hint+1` (if any) is at or after it; or `t` lies
/// before the first keyframe and `hint == 0`.
pub(crate) fn hint_ok(bt: &[f32], hint: usize, t: f32) -> bool {
    hint < bt.len()
        && ((bt[hint] <= t && (hint + 1 >= bt.len() || t <= bt[hint + 1])) || (hint == 0 && t < bt[0]))
}

// -- prepare_frame ------------------------------------------------------------------------------
// Modular: `get_position` is replaced by a function returning an ARBITRARY position (recorded in
// ghost state), so the harness proves prepare_frame's own logic against every possible result of
// the callee; what get_position actually returns is L-TS's contract (verif_time_scale.rs).

static mut POS_KIND: u8 = 0;
static mut POS_T: f32 = 0.0;
static mut POS_REP: bool = false;
static mut POS_REV: bool = false;

fn arbitrary_position_stub(_ts: &TimeScale, _time: f32) -> TimeScalePosition {
    unsafe {
        match POS_KIND {
            0 => TimeScalePosition::NotStarted,
            1 => TimeScalePosition::Active(POS_T, TimeScaleLoopState { is_repeating: POS_REP, is_reversing: POS_REV }),
            _ => TimeScalePosition::Ended(POS_T),
        }
    }
}

macro_rules! prepare_frame_proof {
    ($name:ident, $n:expr) => {
        /// C08: no keyframes => None.  C02/C10: NotStarted => (0%, override enabled); Ended(p) =>
        /// (p, override disabled); Active(t, loop state) => (t, enabled iff neither repeating nor
        /// reversing).  C01: the master index brackets the normalized time (`hint_ok`).
        #[kani::proof]
        #[kani::stub(TimeScale::get_position, arbitrary_position_stub)]
        #[kani::unwind(20)]
        pub(crate) fn $name() {
            let bt: [f32; $n] = kani::any();
            let ts = tsv::any_timescale();
            let time: f32 = kani::any();
            let (kind, pt, rep, rev): (u8, f32, bool, bool) = (kani::any(), kani::any(), kani::any(), kani::any());
            kani::assume(kind <= 2 && bt_ok(&bt) && pos01(pt));
            unsafe {
                POS_KIND = kind;
                POS_T = pt;
                POS_REP = rep;
                POS_REV = rev;
            }
            let r = prepare_frame(time, &bt, &ts);
            if $n == 0 {
                assert!(r.is_none());
            } else {
                let (nt, idx, flag) = r.unwrap();
                match kind {
                    0 => assert!(nt == 0.0 && flag),
                    1 => assert!(nt == pt && flag == (!rep && !rev)),
                    _ => assert!(nt == pt && !flag),
                }
                assert!(hint_ok(&bt, idx, nt));
            }
        }
    };
}
prepare_frame_proof!(prepare_frame_n0, 0);
prepare_frame_proof!(prepare_frame_n1, 1);
prepare_frame_proof!(prepare_frame_n2, 2);
prepare_frame_proof!(prepare_frame_n3, 3);
prepare_frame_proof!(prepare_frame_n4, 4);
prepare_frame_proof!(prepare_frame_n6, 6);
prepare_frame_proof!(prepare_frame_n8, 8);
prepare_frame_proof!(prepare_frame_n16, 16);

/// The index part alone, for any normalized position in [0,1] (what the binary search does),
/// on sorted slices with repeated positions: bounded by the slice length.
macro_rules! search_index_proof {
    ($name:ident, $n:expr) => {
        #[kani::proof]
        #[kani::unwind(20)]
        pub(crate) fn $name() {
            let bt: [f32; $n] = kani::any();
            let nt: f32 = kani::any();
            kani::assume(bt_ok(&bt) && pos01(nt));
            let idx = match bt.binary_search_by(|t| t.total_cmp(&nt)) {
                Ok(index) => index,
                Err(next_index) => next_index.max(1) - 1,
            };
            // total_cmp distinguishes -0.0 < +0.0; the lookup compares with <: both zeros are 0%
            assert!(hint_ok(&bt, idx, nt));
        }
    };
}
search_index_proof!(search_index_n1, 1);
search_index_proof!(search_index_n2, 2);
search_index_proof!(search_index_n3, 3);
search_index_proof!(search_index_n4, 4);
search_index_proof!(search_index_n6, 6);
search_index_proof!(search_index_n8, 8);
search_index_proof!(search_index_n16, 16);

/// A7 (route V's assumed contract of the std search, DESIGN.md 8.12), checked on the REAL
/// `slice::binary_search_by` in exactly the form route V assumes it: bounded by the slice length.
macro_rules! bsearch_contract_proof {
    ($name:ident, $n:expr, $u:expr) => {
        #[kani::proof]
        #[kani::unwind($u)]
        pub(crate) fn $name() {
            let bt: [f32; $n] = kani::any();
            let x: f32 = kani::any();
            kani::assume(bt_ok(&bt) && pos01(x));
            let j: usize = kani::any();
            kani::assume(j < $n);
            match bt.binary_search_by(|t| t.total_cmp(&x)) {
                Ok(i) => assert!(i < $n && bt[i] <= x && x <= bt[i]),
                Err(i) => {
                    assert!(i <= $n);
                    if j < i {
                        assert!(bt[j] <= x);
                    } else {
                        assert!(x <= bt[j]);
                    }
                }
            }
        }
    };
}
bsearch_contract_proof!(bsearch_contract_n1, 1, 5);
bsearch_contract_proof!(bsearch_contract_n2, 2, 6);
bsearch_contract_proof!(bsearch_contract_n3, 3, 7);
bsearch_contract_proof!(bsearch_contract_n4, 4, 8);
bsearch_contract_proof!(bsearch_contract_n8, 8, 12);
bsearch_contract_proof!(bsearch_contract_n16, 16, 20);
bsearch_contract_proof!(bsearch_contract_n64, 64, 68);

// -- Repeat ------------------------------------------------------------------------------------

/// C12: `Repeat` is totally ordered None < Times(1) <= Times(n) < ... <= Infinite, consistently.
#[kani::proof]
pub(crate) fn repeat_order() {
    let a: Repeat = kani::any();
    let b: Repeat = kani::any();
    let c: Repeat = kani::any();
    assert!(a.cmp(&b) == b.cmp(&a).reverse());
    if a <= b && b <= c {
        assert!(a <= c);
    }
    assert!(Repeat::None <= a && a <= Repeat::Infinite);
    if let (Repeat::Times(x), Repeat::Times(y)) = (a, b) {
        assert!((a <= b) == (x <= y));
    }
    assert!(a.partial_cmp(&b) == Some(a.cmp(&b)));
}

// -- abstract component timeline (the contract `TL` of DESIGN.md section 5, C04) --------------------

#[derive(Clone, Copy, Debug, Default, PartialEq, Eq)]
pub(crate) struct Vals {
    pub p: u8,
    pub q: u8,
    /// never animated by any timeline
    pub z: u8,
}

pub(crate) fn any_vals() -> Vals {
    Vals { p: kani::any(), q: kani::any(), z: kani::any() }
}

/// An arbitrary timeline satisfying `TL`: animates the properties in `mask` (bit0 = p,
/// bit1 = q), never touches anything else; its value is an arbitrary step function of time
/// (one symbolic threshold no later than its duration, three symbolic value sets) except that up
/// to the delay it shows the start values (the substituted ones after `start_with`) and from its
/// duration on it is constant (terminal constancy).
#[derive(Clone, Debug)]
pub(crate) struct AbsTl {
    pub mask: u8,
    pub delay: f32,
    pub duration: f32,
    pub cycle: Option<f32>,
    pub repeat: Repeat,
    pub start: Vals,
    pub mid: Vals,
    pub end: Vals,
    pub threshold: f32,
    pub ovr: Option<Vals>,
    pub start_with_calls: u8,
    pub id: u8,
}

impl AbsTl {
    pub(crate) fn any(id: u8) -> Self {
        let delay: f32 = kani::any();
        let duration: f32 = kani::any();
        let threshold: f32 = kani::any();
        kani::assume(delay >= 0.0 && delay.is_finite());
        // a cycle has positive length, so the animation proper starts before it ends (the degenerate
        // duration() == delay(), possible only when a huge delay absorbs the whole span in f32, is excluded:
        // there "shows the start values up to the delay" and "terminal from the duration on" contradict)
        kani::assume(duration > delay);
        kani::assume(!threshold.is_nan());
        // TL includes terminal constancy: from `duration()` on the values no longer change (for real
        // timelines this is C03's `ts_lemma_duration_agrees_*`: every position at t >= total is the
        // terminal one), so the one step of the abstract timeline happens no later than that.
        kani::assume(threshold <= duration);
        let has_cycle: bool = kani::any();
        let c: f32 = kani::any();
        kani::assume(c > 0.0 && c.is_finite());
        AbsTl {
            mask: kani::any::<u8>() & 3,
            delay,
            duration,
            cycle: if has_cycle { Some(c) } else { None },
            repeat: kani::any(),
            start: any_vals(),
            mid: any_vals(),
            end: any_vals(),
            threshold,
            ovr: None,
            start_with_calls: 0,
            id,
        }
    }
    /// The timeline as a function of time (and of the substituted start values).
    pub(crate) fn eval(&self, time: f32) -> Vals {
        // terminal constancy first: from `duration()` on a timeline shows its terminal values, also in
        // the degenerate case duration() == delay() (C03 `ts_lemma_duration_agrees_*`)
        if time >= self.duration {
            self.end
        } else if time <= self.delay {
            match self.ovr {
                Some(v) => v,
                None => self.start,
            }
        } else if time < self.threshold {
            self.mid
        } else {
            self.end
        }
    }
    pub(crate) fn apply(&self, values: &mut Vals, time: f32) {
        let e = self.eval(time);
        if self.mask & 1 != 0 {
            values.p = e.p;
        }
        if self.mask & 2 != 0 {
            values.q = e.q;
        }
    }
}

impl Timeline for AbsTl {
    type Target = Vals;
    fn cycle_duration(&self) -> Option<f32> {
        self.cycle
    }
    fn delay(&self) -> f32 {
        self.delay
    }
    fn duration(&self) -> f32 {
        self.duration
    }
    fn repeat(&self) -> Repeat {
        self.repeat
    }
    fn start_with(&mut self, values: &Vals) {
        self.ovr = Some(*values);
        self.start_with_calls = self.start_with_calls.wrapping_add(1);
    }
    fn update(&self, values: &mut Vals, time: f32) {
        self.apply(values, time);
    }
}

impl<Data: Clone> Keyframe<Data> {
    /// Read access to the keyframe data for the derive-output harnesses (verification only).
    pub fn verif_data(&self) -> Data {
        self.data.clone()
    }
    pub fn verif_easing(&self) -> Option<&Easing> {
        self.easing.as_ref()
    }
    pub fn verif_time(&self) -> f32 {
        self.normalized_time
    }
}

impl<T: Timeline> MergedTimeline<T> {
    /// Read access to the private component list for the animator harnesses (verification only).
    pub fn timelines_ref(&self) -> &Vec<T> {
        &self.timelines
    }
}

// -- MergedTimeline (bounded: 0..=3 components) --------------------------------------------------

macro_rules! merged_proofs {
    ($m:ident, $n:expr) => {
        pub(crate) mod $m {
            use super::*;

            fn components() -> Vec<AbsTl> {
                let mut v = Vec::new();
                let mut i = 0u8;
                while (i as usize) < $n {
                    v.push(AbsTl::any(i));
                    i += 1;
                }
                v
            }

            /// C12: evaluating the merged timeline = applying the components in order to the
            /// same target at the same time (later components win on shared properties).
            #[kani::proof]
            #[kani::unwind(7)]
            pub(crate) fn update_is_ordered_overlay() {
                let comps = components();
                let merged = MergedTimeline::of(comps.clone());
                let t: f32 = kani::any();
                kani::assume(!t.is_nan());
                let before = any_vals();
                let mut got = before;
                merged.update(&mut got, t);
                let mut want = before;
                let mut i = 0;
                while i < $n {
                    comps[i].apply(&mut want, t);
                    i += 1;
                }
                assert!(got == want);
                assert!(got.z == before.z);
            }

            /// C12: start_with reaches every component exactly once with the given values, and
            /// changes nothing else about them.
            #[kani::proof]
            #[kani::unwind(7)]
            pub(crate) fn start_with_reaches_every_component() {
                let comps = components();
                let mut merged = MergedTimeline::of(comps.clone());
                let v = any_vals();
                merged.start_with(&v);
                assert!(merged.timelines.len() == $n);
                let mut i = 0;
                while i < $n {
                    let c = &merged.timelines[i];
                    assert!(c.id == comps[i].id);
                    assert!(c.start_with_calls == 1 && c.ovr == Some(v));
                    assert!(c.delay == comps[i].delay && c.duration == comps[i].duration && c.repeat == comps[i].repeat);
                    i += 1;
                }
            }

            /// C12: delay = smallest, duration = largest (infinite if any is), repeat = largest,
            /// cycle duration only when all components agree.
            #[kani::proof]
            #[kani::unwind(7)]
            pub(crate) fn aggregate_timing() {
                let comps = components();
                let merged = MergedTimeline::of(comps.clone());
                let d = merged.delay();
                let du = merged.duration();
                let r = merged.repeat();
                let cy = merged.cycle_duration();
                if $n == 0 {
                    assert!(d == 0.0 && du == 0.0 && r == Repeat::None && cy.is_none());
                } else {
                    let mut i = 0;
                    let mut d_hit = false;
                    let mut du_hit = false;
                    let mut r_hit = false;
                    let mut all_same = true;
                    while i < $n {
                        assert!(d <= comps[i].delay);
                        assert!(du >= comps[i].duration);
                        assert!(r >= comps[i].repeat);
                        d_hit = d_hit || d == comps[i].delay;
                        du_hit = du_hit || du == comps[i].duration;
                        r_hit = r_hit || r == comps[i].repeat;
                        all_same = all_same && comps[i].cycle == comps[0].cycle;
                        i += 1;
                    }
                    assert!(d_hit && du_hit && r_hit);
                    if all_same {
                        assert!(cy == comps[0].cycle);
                    } else {
                        assert!(cy.is_none());
                    }
                }
            }

            /// C09/C12: a clone gives identical results.
            #[kani::proof]
            #[kani::unwind(7)]
            pub(crate) fn clone_is_equivalent() {
                let comps = components();
                let merged = MergedTimeline::of(comps);
                let twin = merged.clone();
                let t: f32 = kani::any();
                kani::assume(!t.is_nan());
                let before = any_vals();
                let (mut a, mut b) = (before, before);
                merged.update(&mut a, t);
                twin.update(&mut b, t);
                assert!(a == b);
                assert!(twin.delay() == merged.delay() && twin.duration() == merged.duration());
                assert!(twin.repeat() == merged.repeat() && twin.cycle_duration() == merged.cycle_duration());
            }
        }
    };
}
merged_proofs!(merged0, 0);
merged_proofs!(merged1, 1);
merged_proofs!(merged2, 2);
merged_proofs!(merged3, 3);
merged_proofs!(merged4, 4);
merged_proofs!(merged5, 5);

/// C12: wrapping a single timeline changes nothing about it (`From`, `of([t])`).
#[kani::proof]
#[kani::unwind(3)]
pub(crate) fn merged_single_is_transparent() {
    let c = AbsTl::any(7);
    let m: MergedTimeline<AbsTl> = c.clone().into();
    assert!(m.delay() == c.delay && m.duration() == c.duration && m.repeat() == c.repeat && m.cycle_duration() == c.cycle);
    let t: f32 = kani::any();
    kani::assume(!t.is_nan());
    let before = any_vals();
    let (mut a, mut b) = (before, before);
    m.update(&mut a, t);
    c.update(&mut b, t);
    assert!(a == b);
    let built = TimelineOrBuilder::build(m);
    assert!(built.timelines.len() == 1 && built.timelines[0].id == 7);
}

/// C12: with disjoint property sets the order of the components is irrelevant.
#[kani::proof]
#[kani::unwind(4)]
pub(crate) fn merged_disjoint_commutes() {
    let a = AbsTl::any(0);
    let b = AbsTl::any(1);
    kani::assume(a.mask & b.mask == 0);
    let m1 = MergedTimeline::of([a.clone(), b.clone()]);
    let m2 = MergedTimeline::of([b, a]);
    let t: f32 = kani::any();
    kani::assume(!t.is_nan());
    let before = any_vals();
    let (mut x, mut y) = (before, before);
    m1.update(&mut x, t);
    m2.update(&mut y, t);
    assert!(x == y);
}

// -- TimelineBuilderArguments::from (bounded: N <= 3 keyframes) ---------------------------------

#[derive(Clone, Debug)]
struct TagBuilder {
    t: f32,
    tag: u8,
}
impl KeyframeBuilder for TagBuilder {
    type Data = u8;
    fn build(&self) -> Keyframe<u8> {
        Keyframe::new(self.t, self.tag, None)
    }
    fn easing(self, _easing: Easing) -> Self {
        self
    }
}

macro_rules! builder_args_proof {
    ($name:ident, $n:expr) => {
        /// C11: whatever the insertion order, the builder arguments hold the keyframes sorted by
        /// position, the boundary times are exactly the positions of those sorted keyframes
        /// (same index), and no keyframe is lost or duplicated.
        #[kani::proof]
        #[kani::unwind(12)]
        pub(crate) fn $name() {
            let mut cfg: TimelineConfiguration<u8> = TimelineConfiguration::default();
            let mut times = [0.0f32; $n];
            let mut i = 0;
            while i < $n {
                let t: f32 = kani::any();
                kani::assume(pos01(t));
                times[i] = t;
                cfg = cfg.keyframe(TagBuilder { t, tag: i as u8 });
                i += 1;
            }
            let dur: f32 = kani::any();
            let delay: f32 = kani::any();
            let rep: Repeat = kani::any();
            let rev: bool = kani::any();
            kani::assume(!dur.is_nan() && !delay.is_nan());
            cfg = cfg.duration_seconds(dur).delay_seconds(delay).repeat(rep).reverse(rev);
            let args = TimelineBuilderArguments::from(cfg);
            assert!(args.keyframes.len() == $n && args.boundary_times.len() == $n);
            let mut seen = [false; $n];
            let mut j = 0;
            while j < $n {
                let kf = &args.keyframes[j];
                assert!(args.boundary_times[j] == kf.normalized_time);
                if j > 0 {
                    assert!(args.keyframes[j - 1].normalized_time <= kf.normalized_time);
                }
                let tag = kf.data as usize;
                assert!(tag < $n && !seen[tag]);
                seen[tag] = true;
                assert!(kf.normalized_time == times[tag]);
                j += 1;
            }
            // C03/C17: the timing configuration reaches the time scale unchanged
            assert!(args.timescale.get_cycle_duration() == dur && args.timescale.get_delay() == delay);
            assert!(args.timescale.get_repeat() == rep && tsv::is_reverse(&args.timescale) == rev);
        }
    };
}
builder_args_proof!(builder_args_n0, 0);
builder_args_proof!(builder_args_n1, 1);
builder_args_proof!(builder_args_n2, 2);
builder_args_proof!(builder_args_n3, 3);
builder_args_proof!(builder_args_n4, 4);
builder_args_proof!(builder_args_n5, 5);
builder_args_proof!(builder_args_n7, 7);
builder_args_proof!(builder_args_n8, 8);
builder_args_proof!(builder_args_n9, 9);

/// Canary: must FAIL.
#[kani::proof]
#[kani::unwind(5)]
pub(crate) fn canary_must_fail() {
    let bt: [f32; 2] = kani::any();
    let nt: f32 = kani::any();
    kani::assume(bt_ok(&bt) && pos01(nt));
    let idx = match bt.binary_search_by(|t| t.total_cmp(&nt)) {
        Ok(index) => index,
        Err(next_index) => next_index.max(1) - 1,
    };
    assert!(idx == 0, "canary: deliberately false");
}
