//! L-EASE — proof harnesses for the easing curves (C13; used by C02, C10, C20).
//! Child module of `easing` (reads the private lazy statics and the Bezier segment).

use super::*;

fn unit(x: f32) -> bool {
    x >= 0.0 && x <= 1.0
}

/// The 28 cubic-Bezier built-ins with their *published* control points, typed from the CSS
/// Easing Functions spec (ease, ease-in, ease-out, ease-in-out) and easings.net (the rest) —
/// not copied from easing.rs.
pub(crate) fn published(e: &Easing) -> Option<(f32, f32, f32, f32)> {
    Some(match e {
        Easing::Linear => return None,
        Easing::Ease => (0.25, 0.1, 0.25, 1.0),
        Easing::In => (0.42, 0.0, 1.0, 1.0),
        Easing::Out => (0.0, 0.0, 0.58, 1.0),
        Easing::InOut => (0.42, 0.0, 0.58, 1.0),
        Easing::InSine => (0.12, 0.0, 0.39, 0.0),
        Easing::OutSine => (0.61, 1.0, 0.88, 1.0),
        Easing::InOutSine => (0.37, 0.0, 0.63, 1.0),
        Easing::InQuad => (0.11, 0.0, 0.5, 0.0),
        Easing::OutQuad => (0.5, 1.0, 0.89, 1.0),
        Easing::InOutQuad => (0.45, 0.0, 0.55, 1.0),
        Easing::InCubic => (0.32, 0.0, 0.67, 0.0),
        Easing::OutCubic => (0.33, 1.0, 0.68, 1.0),
        Easing::InOutCubic => (0.65, 0.0, 0.35, 1.0),
        Easing::InQuart => (0.5, 0.0, 0.75, 0.0),
        Easing::OutQuart => (0.25, 1.0, 0.5, 1.0),
        Easing::InOutQuart => (0.76, 0.0, 0.24, 1.0),
        Easing::InQuint => (0.64, 0.0, 0.78, 0.0),
        Easing::OutQuint => (0.22, 1.0, 0.36, 1.0),
        Easing::InOutQuint => (0.83, 0.0, 0.17, 1.0),
        Easing::InExpo => (0.7, 0.0, 0.84, 0.0),
        Easing::OutExpo => (0.16, 1.0, 0.3, 1.0),
        Easing::InOutExpo => (0.87, 0.0, 0.13, 1.0),
        Easing::InCirc => (0.55, 0.0, 1.0, 0.45),
        Easing::OutCirc => (0.0, 0.55, 0.45, 1.0),
        Easing::InOutCirc => (0.85, 0.0, 0.15, 1.0),
        Easing::InBack => (0.36, 0.0, 0.66, -0.56),
        Easing::OutBack => (0.34, 1.56, 0.64, 1.0),
        Easing::InOutBack => (0.68, -0.6, 0.32, 1.6),
        Easing::Custom(_) => return None,
    })
}

pub(crate) fn builtin(i: u8) -> Easing {
    match i {
        0 => Easing::Linear,
        1 => Easing::Ease,
        2 => Easing::In,
        3 => Easing::Out,
        4 => Easing::InOut,
        5 => Easing::InSine,
        6 => Easing::OutSine,
        7 => Easing::InOutSine,
        8 => Easing::InQuad,
        9 => Easing::OutQuad,
        10 => Easing::InOutQuad,
        11 => Easing::InCubic,
        12 => Easing::OutCubic,
        13 => Easing::InOutCubic,
        14 => Easing::InQuart,
        15 => Easing::OutQuart,
        16 => Easing::InOutQuart,
        17 => Easing::InQuint,
        18 => Easing::OutQuint,
        19 => Easing::InOutQuint,
        20 => Easing::InExpo,
        21 => Easing::OutExpo,
        22 => Easing::InOutExpo,
        23 => Easing::InCirc,
        24 => Easing::OutCirc,
        25 => Easing::InOutCirc,
        26 => Easing::InBack,
        27 => Easing::OutBack,
        _ => Easing::InOutBack,
    }
}
pub(crate) const N_BUILTIN: u8 = 29;

/// The Bezier polynomial in the parameter, as lyon evaluates it (reference for the dispatch
/// check; the real `CubicBezierEasing::calc` is what is under proof).
fn bezier_y(y1: f32, y2: f32, t: f32) -> f32 {
    let t2 = t * t;
    let t3 = t2 * t;
    let one_t = 1.0 - t;
    let one_t2 = one_t * one_t;
    let one_t3 = one_t2 * one_t;
    0.0 * one_t3 + y1 * 3.0 * one_t2 * t + y2 * 3.0 * one_t * t2 + 1.0 * t3
}

macro_rules! per_variant {
    ($m:ident, $i:expr, $back:expr) => {
        pub(crate) mod $m {
            use super::*;

            /// C13: maps 0 to 0 and 1 to 1 exactly.
            #[kani::proof]
            pub(crate) fn endpoints() {
                let e = builtin($i);
                assert!(e.calc(0.0) == 0.0);
                assert!(e.calc(1.0) == 1.0);
            }

            /// C13: enum-to-curve dispatch uses the published control points: for every x the
            /// variant computes exactly the polynomial of its published (y1, y2).
            #[kani::proof]
            #[kani::solver(cvc5)]
            pub(crate) fn dispatch_matches_published_points() {
                let e = builtin($i);
                let x: f32 = kani::any();
                kani::assume(unit(x));
                match published(&e) {
                    Some((_x1, y1, _x2, y2)) => assert!(e.calc(x) == bezier_y(y1, y2, x)),
                    None => assert!(e.calc(x) == x),
                }
            }

            /// C13/C20: finite everywhere on [0,1]; within [0,1] except for the Back family.
            #[kani::proof]
            #[kani::solver(kissat)]
            pub(crate) fn range() {
                let e = builtin($i);
                let x: f32 = kani::any();
                kani::assume(unit(x));
                let y = e.calc(x);
                assert!(y.is_finite());
                if !$back {
                    assert!(y >= 0.0 && y <= 1.0);
                } else {
                    assert!(y >= -1.0 && y <= 2.0);
                }
            }
        }
    };
}

per_variant!(linear, 0, false);
per_variant!(ease, 1, false);
per_variant!(ease_in, 2, false);
per_variant!(ease_out, 3, false);
per_variant!(ease_in_out, 4, false);
per_variant!(in_sine, 5, false);
per_variant!(out_sine, 6, false);
per_variant!(in_out_sine, 7, false);
per_variant!(in_quad, 8, false);
per_variant!(out_quad, 9, false);
per_variant!(in_out_quad, 10, false);
per_variant!(in_cubic, 11, false);
per_variant!(out_cubic, 12, false);
per_variant!(in_out_cubic, 13, false);
per_variant!(in_quart, 14, false);
per_variant!(out_quart, 15, false);
per_variant!(in_out_quart, 16, false);
per_variant!(in_quint, 17, false);
per_variant!(out_quint, 18, false);
per_variant!(in_out_quint, 19, false);
per_variant!(in_expo, 20, false);
per_variant!(out_expo, 21, false);
per_variant!(in_out_expo, 22, false);
per_variant!(in_circ, 23, false);
per_variant!(out_circ, 24, false);
per_variant!(in_out_circ, 25, false);
per_variant!(in_back, 26, true);
per_variant!(out_back, 27, true);
per_variant!(in_out_back, 28, true);

/// C13: the stored Bezier segment of a `CubicBezierEasing` runs from (0,0) to (1,1) with the
/// given control points.
#[kani::proof]
pub(crate) fn cubic_bezier_new_stores_points() {
    let (x1, y1, x2, y2): (f32, f32, f32, f32) = (kani::any(), kani::any(), kani::any(), kani::any());
    kani::assume(!x1.is_nan() && !y1.is_nan() && !x2.is_nan() && !y2.is_nan());
    let c = CubicBezierEasing::new(x1, y1, x2, y2);
    assert!(c.segment.from.x == 0.0 && c.segment.from.y == 0.0);
    assert!(c.segment.to.x == 1.0 && c.segment.to.y == 1.0);
    assert!(c.segment.ctrl1.x == x1 && c.segment.ctrl1.y == y1);
    assert!(c.segment.ctrl2.x == x2 && c.segment.ctrl2.y == y2);
}

#[derive(Clone, Debug)]
struct ProbeEasing(f32);
impl EasingFunction for ProbeEasing {
    fn calc(&self, x: f32) -> f32 {
        x * self.0
    }
}

/// C13: a custom easing is used as given.
#[kani::proof]
pub(crate) fn custom_is_used_as_given() {
    let k: f32 = kani::any();
    let x: f32 = kani::any();
    kani::assume(k.is_finite() && x.is_finite());
    let e = Easing::Custom(Box::new(ProbeEasing(k)));
    let y = e.calc(x);
    let z = x * k;
    assert!(y == z || (y.is_nan() && z.is_nan()));
}

/// Known finding C13-parameter-not-x (expected to FAIL): the timing-function reading of the
/// statement — at horizontal position bx(t) the easing value is by(t) — for OutQuad.
#[kani::proof]
pub(crate) fn finding_timing_function_semantics_out_quad() {
    let t: f32 = kani::any();
    kani::assume(t >= 0.125 && t <= 0.875);
    let (x1, y1, x2, y2) = published(&Easing::OutQuad).unwrap();
    let c = CubicBezierEasing::new(x1, y1, x2, y2);
    let x = c.segment.x(t);
    let y = c.segment.y(t);
    let got = Easing::OutQuad.calc(x);
    assert!((got - y).abs() <= 0.01, "easing value at horizontal position x equals the curve's y there");
}

/// Canary: must FAIL.
#[kani::proof]
pub(crate) fn canary_must_fail() {
    let x: f32 = kani::any();
    kani::assume(unit(x));
    assert!(Easing::InQuad.calc(x) == x, "canary: deliberately false");
}
