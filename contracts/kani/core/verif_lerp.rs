//! L-LERP — proof harnesses for `Lerp` on the primitive numeric types (C14, C02, C20).
//! Child module of `interpolation`.  All harnesses are loop-free with fully symbolic operands:
//! a passing harness is a proof for every value of the type, not a sample.

use super::*;

/// "exactly representable in f32" (the domain of C14), decided in i128 so that saturating
/// float->int casts cannot fake exactness at the top of a range.
macro_rules! exact_in_f32 {
    ($a:expr) => {
        (($a as f32) as i128) == ($a as i128)
    };
}

fn unit(x: f32) -> bool {
    x >= 0.0 && x <= 1.0
}

macro_rules! int_lerp_laws {
    ($m:ident, $t:ty) => {
        pub(crate) mod $m {
            use super::*;

            /// lerp(a,b,0) = a and lerp(a,b,1) = b, exactly, and without panicking.
            #[kani::proof]
            pub(crate) fn endpoints() {
                let a: $t = kani::any();
                let b: $t = kani::any();
                kani::assume(exact_in_f32!(a) && exact_in_f32!(b));
                assert!(a.lerp(&b, 0.0) == a);
                assert!(a.lerp(&b, 1.0) == b);
            }

            /// For x in [0,1] the result lies between a and b; the conversion never panics
            /// (full range of the type, e.g. i8 -128..127).
            #[kani::proof]
            pub(crate) fn between_and_no_panic() {
                let a: $t = kani::any();
                let b: $t = kani::any();
                let x: f32 = kani::any();
                kani::assume(exact_in_f32!(a) && exact_in_f32!(b) && unit(x));
                let r = a.lerp(&b, x);
                let (lo, hi) = if a <= b { (a, b) } else { (b, a) };
                assert!(lo <= r && r <= hi);
            }

            /// lerp(a,a,x) = a.
            #[kani::proof]
            pub(crate) fn same_value() {
                let a: $t = kani::any();
                let x: f32 = kani::any();
                kani::assume(exact_in_f32!(a) && unit(x));
                assert!(a.lerp(&a, x) == a);
            }
        }
    };
}

int_lerp_laws!(law_i8, i8);
int_lerp_laws!(law_u8, u8);
int_lerp_laws!(law_i16, i16);
int_lerp_laws!(law_u16, u16);
int_lerp_laws!(law_i32, i32);
int_lerp_laws!(law_u32, u32);
int_lerp_laws!(law_i64, i64);
int_lerp_laws!(law_u64, u64);
int_lerp_laws!(law_usize, usize);

/// Values whose f32 image has magnitude below 2^23 (every integer there is exact and the
/// rounding of the two products stays below 1/2): the class on which lerp(a,a,x) = a and
/// betweenness are claimed for the wide types (see known_findings C14-wide-*).
macro_rules! small_magnitude {
    ($a:expr) => {
        ($a as i128) > -8_388_608 && ($a as i128) < 8_388_608
    };
}

macro_rules! wide_int_small_laws {
    ($m:ident, $t:ty) => {
        pub(crate) mod $m {
            use super::*;
            #[kani::proof]
            pub(crate) fn between_and_no_panic_small() {
                let a: $t = kani::any();
                let b: $t = kani::any();
                let x: f32 = kani::any();
                kani::assume(small_magnitude!(a) && small_magnitude!(b) && unit(x));
                let r = a.lerp(&b, x);
                let (lo, hi) = if a <= b { (a, b) } else { (b, a) };
                assert!(lo <= r && r <= hi);
            }
            #[kani::proof]
            pub(crate) fn same_value_small() {
                let a: $t = kani::any();
                let x: f32 = kani::any();
                kani::assume(small_magnitude!(a) && unit(x));
                assert!(a.lerp(&a, x) == a);
            }
        }
    };
}
wide_int_small_laws!(small_i32, i32);
wide_int_small_laws!(small_u32, u32);
wide_int_small_laws!(small_i64, i64);
wide_int_small_laws!(small_u64, u64);
wide_int_small_laws!(small_usize, usize);

/// 8/16-bit types: the result is the real interpolation rounded to nearest (checked against
/// f64 arithmetic, in which a(1-x)+bx is exact to ~2^-37 for these operands; ties and the f32
/// rounding of the two products allow 0.5 + 2^-6).
macro_rules! narrow_nearest {
    ($name:ident, $t:ty) => {
        #[kani::proof]
        pub(crate) fn $name() {
            let a: $t = kani::any();
            let b: $t = kani::any();
            let x: f32 = kani::any();
            kani::assume(unit(x));
            let r = a.lerp(&b, x);
            let exact = (a as f64) * (1.0 - x as f64) + (b as f64) * (x as f64);
            let d = r as f64 - exact;
            assert!(d <= 0.515625 && d >= -0.515625);
        }
    };
}
narrow_nearest!(nearest_i8, i8);
narrow_nearest!(nearest_u8, u8);
narrow_nearest!(nearest_i16, i16);
narrow_nearest!(nearest_u16, u16);

/// The same laws with x on the 257-point grid k/256 (bounded in x, full range in a and b):
/// the stand-in for the types where the all-x proof does not return.
macro_rules! int_lerp_grid {
    ($m:ident, $t:ty) => {
        pub(crate) mod $m {
            use super::*;
            #[kani::proof]
            pub(crate) fn between_and_no_panic_grid() {
                let a: $t = kani::any();
                let b: $t = kani::any();
                let k: u16 = kani::any();
                kani::assume(exact_in_f32!(a) && exact_in_f32!(b) && k <= 256);
                let x = k as f32 / 256.0;
                let r = a.lerp(&b, x);
                let (lo, hi) = if a <= b { (a, b) } else { (b, a) };
                assert!(lo <= r && r <= hi);
            }
            #[kani::proof]
            pub(crate) fn same_value_grid() {
                let a: $t = kani::any();
                let k: u16 = kani::any();
                kani::assume(exact_in_f32!(a) && k <= 256);
                let x = k as f32 / 256.0;
                assert!(a.lerp(&a, x) == a);
            }
        }
    };
}
int_lerp_grid!(grid_i16, i16);
int_lerp_grid!(grid_u16, u16);
int_lerp_grid!(grid_i32, i32);
int_lerp_grid!(grid_u32, u32);
int_lerp_grid!(grid_i64, i64);
int_lerp_grid!(grid_u64, u64);

/// Rounding to nearest, checked in exact integer arithmetic on the 17-point grid x = k/16 (bounded
/// in x, every a and b of the type): 16*r is within 8 of a*(16-k) + b*k.  Cheap enough for the
/// quick tier; catches wrong rounding modes (floor/trunc/ceil, sign-dependent rounding).
macro_rules! nearest_on_grid16 {
    ($name:ident, $t:ty) => {
        #[kani::proof]
        pub(crate) fn $name() {
            let a: $t = kani::any();
            let b: $t = kani::any();
            let k: u8 = kani::any();
            kani::assume(k <= 16);
            kani::assume((a as i128) > -4096 && (a as i128) < 4096 && (b as i128) > -4096 && (b as i128) < 4096);
            let x = k as f32 / 16.0;
            let r = a.lerp(&b, x) as i128;
            let exact16 = (a as i128) * (16 - k as i128) + (b as i128) * (k as i128);
            let d = 16 * r - exact16;
            assert!(d >= -8 && d <= 8, "integer lerp is the real interpolation rounded to nearest");
        }
    };
}
nearest_on_grid16!(nearest_grid16_i8, i8);
nearest_on_grid16!(nearest_grid16_u8, u8);
nearest_on_grid16!(nearest_grid16_i16, i16);
nearest_on_grid16!(nearest_grid16_u16, u16);
nearest_on_grid16!(nearest_grid16_i32, i32);
nearest_on_grid16!(nearest_grid16_u32, u32);
nearest_on_grid16!(nearest_grid16_i64, i64);
nearest_on_grid16!(nearest_grid16_u64, u64);
nearest_on_grid16!(nearest_grid16_usize, usize);

// -- floats --------------------------------------------------------------------------------

/// f32: endpoints exact for finite operands (the form a(1-x)+bx at x = 0 and x = 1).
#[kani::proof]
pub(crate) fn f32_endpoints() {
    let a: f32 = kani::any();
    let b: f32 = kani::any();
    kani::assume(a.is_finite() && b.is_finite());
    assert!(a.lerp(&b, 0.0) == a);
    assert!(a.lerp(&b, 1.0) == b);
}

/// f32: for x in [0,1] the result is finite (no overflow: the form never exceeds the larger
/// magnitude by more than rounding) and lies between a and b up to one rounding step
/// relative to the larger magnitude.
#[kani::proof]
pub(crate) fn f32_between() {
    let a: f32 = kani::any();
    let b: f32 = kani::any();
    let x: f32 = kani::any();
    kani::assume(a.is_finite() && b.is_finite() && unit(x));
    kani::assume(a.abs() <= 1.0e30 && b.abs() <= 1.0e30);
    let r = a.lerp(&b, x);
    let (lo, hi) = if a <= b { (a, b) } else { (b, a) };
    let slack = (a.abs().max(b.abs())) * (4.0 * f32::EPSILON) + f32::MIN_POSITIVE;
    assert!(r.is_finite());
    assert!(r >= lo - slack && r <= hi + slack);
}

/// f32: lerp(a,a,x) = a up to rounding.
#[kani::proof]
pub(crate) fn f32_same_value() {
    let a: f32 = kani::any();
    let x: f32 = kani::any();
    kani::assume(a.is_finite() && unit(x) && a.abs() <= 1.0e30);
    let r = a.lerp(&a, x);
    assert!((r - a).abs() <= a.abs() * (4.0 * f32::EPSILON) + f32::MIN_POSITIVE);
}

/// f64: endpoints exact for values exactly representable in f32; computation is in f32
/// precision (documented), so the result is the f32 lerp widened.
#[kani::proof]
pub(crate) fn f64_is_f32_lerp_widened() {
    let a: f32 = kani::any();
    let b: f32 = kani::any();
    let x: f32 = kani::any();
    kani::assume(a.is_finite() && b.is_finite() && unit(x));
    let r = (a as f64).lerp(&(b as f64), x);
    assert!(r == a.lerp(&b, x) as f64);
    assert!((a as f64).lerp(&(b as f64), 0.0) == a as f64);
    assert!((a as f64).lerp(&(b as f64), 1.0) == b as f64);
}

/// f64: endpoints exact for values exactly representable in f32.
#[kani::proof]
pub(crate) fn f64_endpoints() {
    let a: f32 = kani::any();
    let b: f32 = kani::any();
    kani::assume(a.is_finite() && b.is_finite());
    assert!((a as f64).lerp(&(b as f64), 0.0) == a as f64);
    assert!((a as f64).lerp(&(b as f64), 1.0) == b as f64);
}

/// Known finding C14-wide-int-rounding (expected to FAIL): for exactly representable i32 values
/// near the top of the range the two f32 products round by tens of units, so the result can
/// leave [min(a,b), max(a,b)] (and lerp(a,a,x) != a).  x on the 257-point grid.
#[kani::proof]
pub(crate) fn finding_wide_int_between() {
    let a: i32 = kani::any();
    let b: i32 = kani::any();
    let k: u16 = kani::any();
    kani::assume(exact_in_f32!(a) && exact_in_f32!(b) && k <= 256);
    let x = k as f32 / 256.0;
    let r = a.lerp(&b, x);
    let (lo, hi) = if a <= b { (a, b) } else { (b, a) };
    assert!(lo <= r && r <= hi, "result between a and b");
}

/// Canary: a deliberately false law must FAIL.
#[kani::proof]
pub(crate) fn canary_must_fail() {
    let a: u8 = kani::any();
    let b: u8 = kani::any();
    let x: f32 = kani::any();
    kani::assume(unit(x));
    assert!(a.lerp(&b, x) == a, "canary: deliberately false");
}
