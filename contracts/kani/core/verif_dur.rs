//! A4' — abstraction of `Duration::as_secs_f32` / `Duration::from_secs_f32` for the animator
//! harnesses.  Bit-precise float reasoning about `secs as f32 + nanos as f32 / 1e9`, repeated
//! for every evaluation of the representation invariant, is beyond the SAT back end (the same
//! circuit duplicated many times).  The harnesses therefore replace the two std functions by
//! uninterpreted functions constrained only by the facts the proofs use:
//!   S = as_secs_f32 : a function of the duration (memoised), monotone, S(ZERO) = 0, S >= 0, not NaN
//!       (durations below 2^23 s = 97 days: there the integer seconds are exact in f32, each of the
//!       three roundings is monotone and seconds differ by at least the largest possible fraction);
//!   D = from_secs_f32: a function of its argument (memoised), D(0.0) = ZERO.
//! Those facts about the *real* std functions are proved by the harnesses at the bottom
//! (`std_as_secs_f32_facts`, `std_from_secs_f32_zero`) with the word-level solver.

use std::time::Duration;

const N: usize = 4;
static mut S_USED: usize = 0;
static mut S_SECS: [u64; N] = [0; N];
static mut S_NANOS: [u32; N] = [0; N];
static mut S_VAL: [f32; N] = [0.0; N];

static mut S_POOL: [f32; N] = [0.0; N];
static mut D_POOL_SECS: u64 = 0;
static mut D_POOL_NANOS: u32 = 0;

/// Draws, UP FRONT, every value the two models may hand out.  Harnesses call this first: with all
/// nondeterminism drawn before the code under proof runs, the concrete-playback input lines up
/// when the harness is replayed natively (where the models are not applied and the real std
/// functions run).
pub fn dur_reset() {
    unsafe {
        S_USED = 0;
        D_SET = false;
        let mut i = 0;
        while i < N {
            S_POOL[i] = kani::any();
            i += 1;
        }
        D_POOL_SECS = kani::any();
        D_POOL_NANOS = kani::any();
    }
}

fn le(s1: u64, n1: u32, s2: u64, n2: u32) -> bool {
    s1 < s2 || (s1 == s2 && n1 <= n2)
}

/// Model of `Duration::as_secs_f32`.
pub fn as_secs_f32_model(d: &Duration) -> f32 {
    let (s, n) = (d.as_secs(), d.subsec_nanos());
    unsafe {
        let mut i = 0;
        while i < N {
            if i < S_USED && S_SECS[i] == s && S_NANOS[i] == n {
                return S_VAL[i];
            }
            i += 1;
        }
        kani::assert(S_USED < N, "verif_dur: memo table too small for this harness");
        let v: f32 = S_POOL[if S_USED < N { S_USED } else { 0 }];
        kani::assume(v >= 0.0 && v.is_finite());
        if s == 0 && n == 0 {
            kani::assume(v == 0.0);
        }
        let mut j = 0;
        while j < N {
            if j < S_USED {
                if le(S_SECS[j], S_NANOS[j], s, n) {
                    kani::assume(S_VAL[j] <= v);
                }
                if le(s, n, S_SECS[j], S_NANOS[j]) {
                    kani::assume(v <= S_VAL[j]);
                }
            }
            j += 1;
        }
        if S_USED < N {
            S_SECS[S_USED] = s;
            S_NANOS[S_USED] = n;
            S_VAL[S_USED] = v;
            S_USED += 1;
        }
        v
    }
}

static mut D_SET: bool = false;
static mut D_ARG: f32 = 0.0;
static mut D_SECS: u64 = 0;
static mut D_NANOS: u32 = 0;

/// Model of `Duration::from_secs_f32` on its non-panicking domain (finite, >= 0, not huge).
pub fn from_secs_f32_model(x: f32) -> Duration {
    unsafe {
        if D_SET && D_ARG == x {
            return Duration::new(D_SECS, D_NANOS);
        }
        let s: u64 = D_POOL_SECS;
        let n: u32 = D_POOL_NANOS;
        kani::assume(s < (1u64 << 23) && n < 1_000_000_000);
        if x == 0.0 {
            kani::assume(s == 0 && n == 0);
        }
        D_SET = true;
        D_ARG = x;
        D_SECS = s;
        D_NANOS = n;
        Duration::new(s, n)
    }
}

/// The facts assumed about `as_secs_f32` hold for the real std function.
#[kani::proof]
#[kani::solver(cvc5)]
fn std_as_secs_f32_facts() {
    let (s1, n1, s2, n2): (u64, u32, u64, u32) = (kani::any(), kani::any(), kani::any(), kani::any());
    // the domain the animator / Bevy harnesses draw durations from: below 2^23 s (97 days), where the
    // integer seconds are exact in f32
    kani::assume(n1 < 1_000_000_000 && n2 < 1_000_000_000 && s1 < (1u64 << 23) && s2 < (1u64 << 23));
    let a = Duration::new(s1, n1);
    let b = Duration::new(s2, n2);
    let (fa, fb) = (a.as_secs_f32(), b.as_secs_f32());
    assert!(fa >= 0.0 && fa.is_finite());
    if a <= b {
        assert!(fa <= fb);
    }
    assert!(Duration::ZERO.as_secs_f32() == 0.0);
}

// `std_as_secs_f32_facts` did not return (Kissat 3000 s, cvc5 3000 s).  The same fact, split into pieces each
// solver call can digest; the composition is three lines (DESIGN.md 8.2, A4'):
//   as_secs_f32(s,n) == fl(s as f32 + frac(n))                                  [dur_def_unfold]
//   n1 <= n2  =>  0 <= frac(n1) <= frac(n2) <= 1                                 [dur_frac_monotone]
//   x <= y in [0,1], s < 2^23  =>  fl(s+x) <= fl(s+y), fl(s+0)==s, fl(s+1)==s+1  [dur_add_monotone]
//   hence for (s1,n1) <= (s2,n2): same s: by the 2nd and 3rd; s1 < s2: fl(s1+x) <= s1+1 <= s2 <= fl(s2+y).

fn frac(n: u32) -> f32 {
    (n as f32) / (1_000_000_000u32 as f32)
}

/// NOT registered: no result in 600 s (CaDiCaL), 420 s (cvc5), 300 s (z3); sampled natively instead
/// (contracts/native/verif_native_dur.rs).
#[kani::proof]
fn dur_def_unfold() {
    let (s, n): (u64, u32) = (kani::any(), kani::any());
    kani::assume(n < 1_000_000_000 && s < (1u64 << 23));
    assert!(Duration::new(s, n).as_secs_f32() == (s as f32) + frac(n));
}

/// NOT registered: no result in 600 s (CaDiCaL), 420 s (cvc5), 300 s (z3); checked natively by
/// exhaustive enumeration of all 10^9 nanosecond counts instead (contracts/native/verif_native_dur.rs).
#[kani::proof]
fn dur_frac_monotone() {
    let (n1, n2): (u32, u32) = (kani::any(), kani::any());
    kani::assume(n1 <= n2 && n2 < 1_000_000_000);
    let (a, b) = (frac(n1), frac(n2));
    assert!(0.0 <= a && a <= b && b <= 1.0);
}

#[kani::proof]
fn dur_add_monotone() {
    let s: u32 = kani::any();
    kani::assume(s < (1u32 << 23));
    let (x, y): (f32, f32) = (kani::any(), kani::any());
    kani::assume(0.0 <= x && x <= y && y <= 1.0);
    let sf = s as f32;
    assert!(sf + x <= sf + y);
    assert!(sf + 0.0 == sf && sf + 1.0 == (s + 1) as f32);
    assert!(sf + x >= 0.0 && (sf + y).is_finite());
    // integer seconds are exact and ordered
    let t: u32 = kani::any();
    kani::assume(t < (1u32 << 23) && s < t);
    assert!((s + 1) as f32 <= t as f32);
}

#[kani::proof]
fn std_from_secs_f32_zero() {
    assert!(Duration::from_secs_f32(0.0) == Duration::ZERO);
    assert!(Duration::from_secs_f32(-0.0) == Duration::ZERO);
}
