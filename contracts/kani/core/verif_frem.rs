//! A1 — abstraction of the f32 remainder operator for Kani (DESIGN.md §3-A1).
//!
//! CBMC's model of `fmodf` is wrong (5.5 % 2.0 == 0.0), so route K rewrites the token
//! `a % b` in time_scale.rs to `frem32(a, b)`.  Outside verification `frem32` *is* `a % b`
//! (so concrete playback runs the real operator); under Kani every harness that reaches it
//! carries `#[kani::stub(frem32, frem32_model)]`.
//!
//! The model returns one value `FREM_R`, drawn by the harness *before* the function under
//! proof runs (`frem_havoc()`), and assumes the IEEE-754 `fmod` facts about it for the actual
//! arguments.  Nothing else about the value is known, so a proof holds for every remainder
//! function consistent with those facts.  A harness may register the operands it expects
//! (`frem_expect`); the model then asserts that the remainder is taken of exactly those.
//! Keeping the value a single pre-drawn symbol (no memo table, no bit casts) makes the term
//! the specification sees syntactically identical to the one the code sees, which is what
//! lets a word-level solver discharge the obligations.

#[inline(never)]
pub fn frem32(a: f32, b: f32) -> f32 {
    a % b
}

#[cfg(kani)]
pub use kani_model::*;

#[cfg(kani)]
mod kani_model {
    /// The facts about `r = fmod(a, b)` that proofs may use, for finite `a >= 0`, finite `b > 0`.
    pub fn frem_axioms(a: f32, b: f32, r: f32) -> bool {
        r >= 0.0 && r < b && r <= a && (!(a < b) || r == a) && (!(a == b) || r == 0.0)
    }

    pub static mut FREM_R: f32 = 0.0;
    pub static mut FREM_A: f32 = 0.0;
    pub static mut FREM_B: f32 = 0.0;
    pub static mut FREM_EXPECT: bool = false;

    /// Draw the remainder the next call will return. Every harness that can reach `frem32` calls
    /// this first.
    pub fn frem_havoc() {
        unsafe {
            FREM_R = kani::any();
            FREM_EXPECT = false;
        }
    }

    /// Ghost expectation: if the remainder is taken at all it must be taken of exactly `(a, b)`;
    /// the model asserts this (obligation "A1 ghost: remainder operands").
    pub fn frem_expect(a: f32, b: f32) {
        unsafe {
            FREM_A = a;
            FREM_B = b;
            FREM_EXPECT = true;
        }
    }

    pub fn frem_current() -> f32 {
        unsafe { FREM_R }
    }

    pub fn frem32_model(a: f32, b: f32) -> f32 {
        unsafe {
            if FREM_EXPECT {
                kani::assert(
                    a == FREM_A && b == FREM_B,
                    "A1 ghost: the remainder is taken of (time since the delay, cycle duration)",
                );
            }
            if a.is_finite() && a >= 0.0 && b.is_finite() && b > 0.0 {
                kani::assume(frem_axioms(a, b, FREM_R));
                FREM_R
            } else {
                // outside the domain of the axioms nothing is known about the result
                kani::any()
            }
        }
    }
}
