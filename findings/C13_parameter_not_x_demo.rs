// Place in core/tests/ and run: fails on the pinned tree.
// CSS/easings.net define an easing as the cubic-Bezier *timing function*: the curve's y at the
// point whose horizontal coordinate is x. The library evaluates y(t) at parameter t = x instead.
// For OutQuad = cubic-bezier(0.5, 1, 0.89, 1) at x = bx(0.125) ~ 0.1686 the timing function is
// by(0.125) ~ 0.330, the library returns ~0.421. Two pinned unit tests (when_easing_*) encode the
// parameter reading (49 at x = 0.2 instead of 36), so this cannot be repaired without editing the suite.
use mina_core::easing::{Easing, EasingFunction};
fn bez(p1: f32, p2: f32, t: f32) -> f32 {
    let u = 1.0 - t;
    3.0 * u * u * t * p1 + 3.0 * u * t * t * p2 + t * t * t
}
#[test]
fn out_quad_is_the_css_timing_function() {
    let t = 0.125;
    let (x, y) = (bez(0.5, 0.89, t), bez(1.0, 1.0, t));
    assert!((Easing::OutQuad.calc(x) - y).abs() <= 0.01, "calc({x}) = {} but timing function = {y}", Easing::OutQuad.calc(x));
}
