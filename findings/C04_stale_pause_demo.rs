use mina::prelude::*;

#[derive(Clone, Debug, Default, Eq, PartialEq, State)]
enum St {
    #[default]
    A,
    B,
    C,
}

#[derive(Animate, Clone, Debug, Default, PartialEq)]
struct Style {
    x: u8,
}

#[test]
fn set_state_never_jumps_after_pause_then_other_animation() {
    let mut animator = StateAnimatorBuilder::new()
        .from_state(St::A)
        .on(St::A, Style::timeline().duration_seconds(5.0)
            .keyframe(Style::keyframe(0.0).x(0))
            .keyframe(Style::keyframe(1.0).x(100)))
        .on(St::C, Style::timeline().duration_seconds(5.0)
            .keyframe(Style::keyframe(0.0).x(200))
            .keyframe(Style::keyframe(1.0).x(250)))
        .build();
    animator.advance(2.0); // A at 2s: x = 40
    animator.set_state(&St::B); // no timeline: freezes, remembers (A, 2s)
    animator.set_state(&St::C); // another animated state: blends from 40
    animator.advance(2.5); // x somewhere between 40 and 250
    let before = animator.current_values().clone();
    animator.set_state(&St::A); // must not jump
    assert_eq!(animator.current_values(), &before);
}
