use mina_core::time_scale::{TimeScale, TimeScalePosition};
use mina_core::timeline::Repeat;
#[test]
fn repeat_max_does_not_overflow() {
    let ts = TimeScale::new(1.0, 0.0, Repeat::Times(u32::MAX), false);
    assert_eq!(ts.get_duration(), 4294967296.0);
    assert!(matches!(ts.get_position(0.5), TimeScalePosition::Active(..)));
}
