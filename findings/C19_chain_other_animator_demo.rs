use bevy::prelude::*;
use bevy::utils::HashMap;
use bevy_mina::prelude::*;
use mina::prelude::*;
use std::time::{Duration, Instant};

#[derive(Animate, Component, Clone, Debug, Default, PartialEq)]
struct Fade {
    alpha: f32,
}
#[derive(Animate, Component, Clone, Debug, Default, PartialEq)]
struct Slide {
    x: f32,
}
#[derive(Clone, Copy, Debug, Default, PartialEq, Eq, Hash)]
enum Key {
    #[default]
    First,
    Second,
}

fn frame(app: &mut App, at: Instant) {
    app.world.resource_mut::<Time>().update_with_instant(at);
    app.update();
}

#[test]
fn chain_fires_only_for_its_own_animator() {
    let mut app = App::new();
    app.insert_resource(Time::default());
    app.add_plugins((AnimationPlugin::<Fade>::new(), AnimationPlugin::<Slide>::new()));
    app.register_animation_key::<Fade, Key>();
    let long = |a: f32| Fade::timeline().duration_seconds(100.0).keyframe(Fade::keyframe(0.0).alpha(0.0)).keyframe(Fade::keyframe(1.0).alpha(a)).build();
    let short = Slide::timeline().duration_seconds(0.1).keyframe(Slide::keyframe(0.0).x(0.0)).keyframe(Slide::keyframe(1.0).x(1.0)).build();
    let selector = AnimationSelectorBuilder::new().add(Key::First, long(1.0)).add(Key::Second, long(2.0)).initial_key(Key::First).build();
    let chain = AnimationChainBuilder::new().add(Key::First, Key::Second).build();
    let e = app
        .world
        .spawn((Fade::default(), Slide::default(), Animator::<Fade>::new(), Animator::with_timeline(short), selector, chain))
        .id();
    let t0 = Instant::now();
    for ms in [0u64, 100, 200, 300, 400, 500] {
        frame(&mut app, t0 + Duration::from_millis(ms));
    }
    // the Slide animator has ended; the Fade animator (100 s) is nowhere near its end
    assert_eq!(app.world.get::<Animator<Slide>>(e).unwrap().state(), AnimationState::Ended);
    assert_ne!(app.world.get::<Animator<Fade>>(e).unwrap().state(), AnimationState::Ended);
    let sel = app.world.get::<AnimationSelector<Key, Fade>>(e).unwrap();
    assert_eq!(sel.timeline_key, Key::First, "the Fade chain fired although only the Slide animator ended");
}
