use mina::prelude::*;

#[derive(Animate, Clone, Debug, Default, PartialEq)]
struct S {
    x: f32,
}

fn build(order: &[usize]) -> STimeline {
    let kfs = [(0.0, 0.0), (0.25, 10.0), (0.5, 20.0), (1.0, 0.0)];
    let mut cfg = S::timeline().duration_seconds(1.0);
    for &i in order {
        cfg = cfg.keyframe(S::keyframe(kfs[i].0).x(kfs[i].1));
    }
    cfg.build()
}

#[test]
fn insertion_order_is_irrelevant() {
    let reference = build(&[0, 1, 2, 3]);
    let perms: [[usize; 4]; 5] = [[3, 2, 1, 0], [1, 0, 3, 2], [2, 3, 0, 1], [0, 2, 1, 3], [3, 0, 1, 2]];
    for p in perms {
        let other = build(&p);
        for k in 0..=40 {
            let t = k as f32 / 40.0;
            let mut va = S::default();
            let mut vb = S::default();
            reference.update(&mut va, t);
            other.update(&mut vb, t);
            assert_eq!(va, vb, "order={p:?} t={t}");
        }
    }
}
