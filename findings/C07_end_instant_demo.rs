//! Genuine defect (C07, also C03/C18): at the instant `time == timeline.duration()` the timeline
//! did not show its terminal values when `cycle x (repeats+1)` (or `delay + ...`) is not exact in
//! f32: `get_duration` reports the ROUNDED total, `get_position` compared the time since the delay
//! (rounded again) with `>` and then took `time % cycle`, whose remainder is not zero there, so the
//! position wrapped around into a cycle that does not exist (or stayed an ulp inside the last one).
//! `is_ended()` (time >= duration) was already true, so "once ended the values stay constant at the
//! terminal values" failed: the values moved on the next advance; the Bevy animator, which stops
//! evaluating once Ended, kept the wrong values forever.
//! Place in /repo/tests/, run: cargo test --offline -p mina --test C07_end_instant_demo
use mina::prelude::*;

#[derive(Clone, Debug, Default, Eq, PartialEq, State)]
enum St {
    #[default]
    A,
}

#[derive(Animate, Clone, Debug, Default, PartialEq)]
struct Style {
    x: f32,
}

#[test]
fn ended_means_terminal_values_at_the_end_instant() {
    // 0.1 s cycle, played 3 times: total duration 0.3 s (0.1f32 * 3.0 rounds UP to 0.3f32)
    let mut animator = StateAnimatorBuilder::new()
        .from_state(St::A)
        .on(St::A, Style::timeline().duration_seconds(0.1).repeat(Repeat::Times(2))
            .keyframe(Style::keyframe(0.0).x(1.0))
            .keyframe(Style::keyframe(1.0).x(3.0)))
        .build();
    animator.advance(0.1);
    animator.advance(0.1);
    animator.advance(0.1); // lands exactly on the end instant
    assert!(animator.is_ended());
    let at_end = animator.current_values().clone();
    animator.advance(1.0);
    // C07: once ended, current_values stays constant at the terminal values
    assert_eq!(animator.current_values(), &Style { x: 3.0 });
    assert_eq!(at_end, Style { x: 3.0 }, "is_ended() was true but the values were not the terminal ones");
}

#[test]
fn timeline_at_its_reported_duration_is_terminal() {
    // delay 0.1 + 0.3 * 3: reported duration 1.0, but 1.0 - 0.1 < 0.3f32 * 3.0 in f32
    let tl = Style::timeline().duration_seconds(0.3).delay_seconds(0.1).repeat(Repeat::Times(2))
        .keyframe(Style::keyframe(0.0).x(1.0))
        .keyframe(Style::keyframe(1.0).x(3.0))
        .build();
    let mut v = Style::default();
    tl.update(&mut v, tl.duration());
    assert_eq!(v, Style { x: 3.0 });
}
