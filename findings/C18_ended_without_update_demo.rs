use bevy::prelude::*;
use bevy_mina::prelude::*;
use mina::prelude::*;
use std::time::{Duration, Instant};

#[derive(Animate, Component, Clone, Debug, Default, PartialEq)]
struct Fade {
    alpha: f32,
}

fn frame(app: &mut App, at: Instant) {
    app.world.resource_mut::<Time>().update_with_instant(at);
    app.update();
}

#[test]
fn ended_animator_holds_terminal_values() {
    let mut app = App::new();
    app.insert_resource(Time::default());
    app.add_plugins(AnimationPlugin::<Fade>::new());
    let timeline = Fade::timeline()
        .duration_seconds(1.0)
        .delay_seconds(1.0)
        .keyframe(Fade::keyframe(0.0).alpha(0.0))
        .keyframe(Fade::keyframe(1.0).alpha(1.0))
        .build();
    let e = app.world.spawn((Fade::default(), Animator::with_timeline(timeline))).id();
    let t0 = Instant::now();
    frame(&mut app, t0);
    frame(&mut app, t0 + Duration::from_millis(500)); // still waiting (delay = 1 s)
    frame(&mut app, t0 + Duration::from_millis(10_500)); // one frame longer than the whole animation
    frame(&mut app, t0 + Duration::from_millis(10_600));
    frame(&mut app, t0 + Duration::from_millis(10_700));
    let animator = app.world.get::<Animator<Fade>>(e).unwrap();
    let fade = app.world.get::<Fade>(e).unwrap();
    assert_eq!(animator.state(), AnimationState::Ended);
    assert_eq!(fade.alpha, 1.0, "Ended is reported but the component never received the terminal values");
}
