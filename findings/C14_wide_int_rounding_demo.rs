// Place in core/tests/ and run `cargo test -p mina_core --test <name>`: fails on the pinned tree.
// -38751284 is exactly representable in f32 (24 significant bits), yet lerp(a, a, 10/256) != a:
// the two products a*(1-x) and a*x are each rounded to f32 and their sum lands on a neighbour.
use mina_core::interpolation::Lerp;
#[test]
fn lerp_of_equal_exact_values_is_that_value() {
    let a: i32 = -38751284;
    assert_eq!((a as f32) as i64, a as i64);
    assert_eq!(a.lerp(&a, 10.0 / 256.0), a);
}
